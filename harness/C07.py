"""C07 - a molecular grid is the weighted concatenation of its atomic grids (molgrid.py)."""
import sys, time, os, itertools, math
import numpy as np
from fractions import Fraction
from symgrid import dag, poly, smt, sym, npproxy, harness
from symgrid.sym import Engine, Sym, real, K, node_of, PI
from symgrid.harness import Job, Ctx
from harness.C03 import unpatched
from harness.C19 import load_hook, clear_caches

PROP = "C07"


def _mods():
    import grid.angular as an, grid.atomgrid as ag, grid.basegrid as bg, grid.molgrid as mg, grid.becke as bk, grid.utils as ut
    return an, ag, bg, mg, bk, ut


def arr(vals, shape=None):
    a = np.empty(len(vals), dtype=object)
    a[:] = vals
    return a if shape is None else a.reshape(shape)


def install():
    mods = _mods()
    for m in mods:
        npproxy.install(m, load_hook=load_hook)
    clear_caches(mods[0])
    return mods


def sym_atomgrids(ag, bg, natom, shells):
    import warnings
    warnings.simplefilter("ignore")
    out = []
    for A in range(natom):
        r = arr([real(f"r{A}_{i}") for i in range(shells)])
        w = arr([real(f"rw{A}_{i}") for i in range(shells)])
        c = arr([real(f"C{A}_{a}") for a in range(3)])
        out.append(ag.AtomGrid(bg.OneDGrid(r, w, (0, np.inf)), degrees=[3], center=c, rotate=0))
    return out


def concrete_atomgrids(ag, bg, m, natom, shells):
    out = []
    g = lambda nm, d: float(m.get(nm, d))
    for A in range(natom):
        r = np.array([g(f"r{A}_{i}", 0.4 + 0.7 * i + 0.1 * A) for i in range(shells)])
        w = np.array([g(f"rw{A}_{i}", 0.2 + 0.1 * i) for i in range(shells)])
        c = np.array([g(f"C{A}_{a}", 0.9 * A + 0.2 * a) for a in range(3)])
        out.append(ag.AtomGrid(bg.OneDGrid(r, w, (0, np.inf)), degrees=[3], center=c, rotate=0))
    return out


def job_init(ctx: Ctx, natom, shells, aim_kind):
    an, ag, bg, mg, bk, ut = install()
    e = ctx.engine
    ctx.encoded(mg.MolGrid.__init__, mg.MolGrid.get_atomic_grid, mg.MolGrid.__getitem__, bg.Grid.integrate)
    for A in range(natom):
        e.assume(real(f"r{A}_0") >= 0)
        for i in range(1, shells):
            e.assume(real(f"r{A}_{i}") > real(f"r{A}_{i - 1}"))
    nums = np.array([8, 1, 1, 6][:natom])
    ctx.bounds.update(dict(atoms=natom, shells_per_atom=shells, aim_weights=aim_kind))
    key = f"MolGrid:{aim_kind}"
    sizes = [6 * shells] * natom
    total = sum(sizes)
    aim_arr = arr([real(f"aim{i}") for i in range(total)])
    calls = []

    def aim_callable(points, atcoords, atnums, indices):
        calls.append((points, atcoords, atnums, indices))
        return arr([Sym(dag.uf("aimf", [node_of(points[i, a]) for a in range(3)] + [dag.const(int(np.searchsorted(np.asarray(indices)[1:], i, side="right")))])) for i in range(len(points))])

    def replay(m):
        with unpatched(an, ag, bg, mg, bk, ut):
            clear_caches(an)
            import warnings
            warnings.simplefilter("ignore")
            ats = concrete_atomgrids(ag, bg, m, natom, shells)
            if aim_kind == "array":
                aim = np.array([float(m.get(f"aim{i}", 0.5 + 0.01 * i)) for i in range(total)])
            else:
                aim = lambda pts, atc, atn, ind: 0.25 + 0.5 / (1 + np.sum(pts ** 2, axis=1)) + 0.1 * np.searchsorted(np.asarray(ind)[1:], np.arange(len(pts)), side="right")
            bad, info = False, {}
            ref = None
            for store in (True, False):
                mol = mg.MolGrid(nums, ats, aim, store=store)
                P = np.vstack([a_.points for a_ in ats])
                aw = aim if aim_kind == "array" else aim(P, None, None, mol.indices)
                W = np.hstack([a_.weights for a_ in ats]) * aw
                if not np.allclose(mol.points, P) or not np.allclose(mol.weights, W, rtol=1e-12) or list(mol.indices) != list(np.cumsum([0] + sizes)):
                    bad = True
                    info[f"store={store}"] = dict(indices=list(map(int, mol.indices)), first_weight=float(mol.weights[0]), expected_first_weight=float(W[0]))
                per = []
                for i in range(natom):
                    a1, a2 = mol.get_atomic_grid(i), mol[i]
                    per.append((np.asarray(a1.points), np.asarray(a1.weights), np.asarray(a2.points), np.asarray(a2.weights)))
                    if not np.allclose(a1.points, ats[i].points) or not np.allclose(a1.weights, ats[i].weights, rtol=1e-12):
                        bad = True
                        info[f"get_atomic_grid({i}) store={store}"] = "differs from the atomic grid that was passed in"
                if ref is None:
                    ref = per
                else:
                    for i in range(natom):
                        if not np.allclose(ref[i][3], per[i][3], rtol=1e-12):
                            bad = True
                            info[f"mol[{i}].weights"] = dict(store_true=ref[i][3][:3].tolist(), store_false=per[i][3][:3].tolist())
            clear_caches(an)
            return bad, info

    def body():
        ats = sym_atomgrids(ag, bg, natom, shells)
        aim = aim_arr if aim_kind == "array" else (aim_callable if aim_kind == "callable" else None)
        out = {}
        for store in (True, False):
            mol = mg.MolGrid(nums, ats, aim, store=store)
            fvals = arr([Sym(dag.uf("f", [node_of(mol.points[i, a]) for a in range(3)])) for i in range(mol.size)])
            out[store] = dict(points=mol.points, weights=mol.weights, indices=mol.indices, atweights=mol.atweights, aim=mol.aim_weights, atcoords=mol.atcoords, integral=mol.integrate(fvals),
                              atomic=[(mol.get_atomic_grid(i), mol[i]) for i in range(natom)], f=fvals)
        return ats, out
    for p in e.run(body):
        ctx.paths += 1
        if p.exc is not None:
            ctx.fail("MolGrid() constructs", f"{type(p.exc).__name__}: {str(p.exc)[:160]}", key=key + ":raises", replay=replay, model=ctx.model_for(p.pc) or {})
            continue
        if ctx.twin(p.pc) == "unsat":
            continue
        ats, out = p.result
        exp_ind = list(np.cumsum([0] + [a_.size for a_ in ats]))
        for store in (True, False):
            o = out[store]
            tag = f"store={store}"
            (ctx.ok if [int(v) for v in o["indices"]] == exp_ind else ctx.fail)(f"{tag}: atom index table == prefix sums of the atomic grid sizes (starts at 0, ends at size)", detail=str(list(o["indices"])),
                                                                               key=key + ":indices", replay=replay, **({} if [int(v) for v in o["indices"]] == exp_ind else dict(model={})))
            if [int(v) for v in o["indices"]] != exp_ind:
                continue
            integ = K(0)
            for A, at in enumerate(ats):
                atp, atw = at.points, at.weights
                for k in range(at.size):
                    row = exp_ind[A] + k
                    for a in range(3):
                        ctx.eq(f"{tag}: points[{row}] == atom {A} point {k}", o["points"][row, a], atp[k, a], p.pc, replay=replay, key=key + ":points")
                    aimv = o["aim"][row]
                    ctx.eq(f"{tag}: weights[{row}] == atomic weight * aim weight", o["weights"][row], atw[k] * aimv, p.pc, replay=replay, key=key + ":weights")
                    ctx.eq(f"{tag}: atweights[{row}] == atomic weight", o["atweights"][row], atw[k], p.pc, replay=replay, key=key + ":weights")
                    if aim_kind == "array":
                        ctx.eq(f"{tag}: aim_weights[{row}] is the value passed in", aimv, aim_arr[row], p.pc, replay=replay, key=key + ":weights")
                    elif aim_kind == "callable":
                        want = Sym(dag.uf("aimf", [node_of(atp[k, a]) for a in range(3)] + [dag.const(A)]))
                        ctx.eq(f"{tag}: aim_weights[{row}] is the callable evaluated at that point with the atom's segment", aimv, want, p.pc, replay=replay, key=key + ":weights")
                    integ = integ + atw[k] * aimv * o["f"][row]
                for a in range(3):
                    ctx.eq(f"{tag}: atcoords[{A}] == centre of atom {A}", o["atcoords"][A, a], at.center[a], p.pc, replay=replay, key=key + ":points")
            ctx.eq(f"{tag}: integrate(f) == sum_A atomic integral of w_A f", o["integral"], integ, p.pc, replay=replay, key=key + ":integral")
            for A, (g1, g2) in enumerate(o["atomic"]):
                for which, gg, kk in (("get_atomic_grid", g1, ":per-atom"), ("mol[i]", g2, ":getitem")):
                    P_, W_ = np.asarray(gg.points, dtype=object), np.asarray(gg.weights, dtype=object)
                    ok_shape = P_.shape == (ats[A].size, 3)
                    if not ok_shape:
                        ctx.fail(f"{tag}: {which}({A}) has the atom's points", detail=str(P_.shape), key=key + kk, replay=replay, model={})
                        continue
                    for k in range(ats[A].size):
                        for a in range(3):
                            ctx.eq(f"{tag}: {which}({A}).points[{k}]", P_[k, a], ats[A].points[k, a], p.pc, replay=replay, key=key + kk)
                        ctx.eq(f"{tag}: {which}({A}).weights[{k}] == atomic-grid weight (same for store on and off)", W_[k], ats[A].weights[k], p.pc, replay=replay,
                               key=key + kk + (":store-dependent-weights" if which == "mol[i]" else ""))
        for k_ in ("points", "weights"):
            same = all(node_of(a_) is node_of(b_) for a_, b_ in zip(np.asarray(out[True][k_]).ravel(), np.asarray(out[False][k_]).ravel()))
            (ctx.ok if same else ctx.fail)(f"{k_} do not depend on `store`", key=key + ":store", replay=replay, **({} if same else dict(model={})))
        ctx.eq("integrals do not depend on `store`", out[True]["integral"], out[False]["integral"], p.pc, replay=replay, key=key + ":store")
    clear_caches(an)


def job_becke_indices(ctx: Ctx, natom):
    """MolGrid with the real BeckeWeights callable for >= 4 atoms (chunked evaluation): the index table must still delimit the atoms afterwards."""
    an, ag, bg, mg, bk, ut = _mods()
    ctx.encoded(mg.MolGrid.__init__, bk.BeckeWeights.__call__)
    import warnings
    warnings.simplefilter("ignore")
    rng = np.random.default_rng(11)
    bad = []
    for trial in range(3):
        coords = rng.normal(size=(natom, 3)) * 2.0
        nums = np.array([6, 1, 1, 1, 1, 8][:natom])
        ats = [ag.AtomGrid(bg.OneDGrid(np.array([0.5, 1.2]), np.array([0.3, 0.4]), (0, np.inf)), degrees=[3], center=coords[i]) for i in range(natom)]
        for store in (False, True):
            mol = mg.MolGrid(nums, ats, bk.BeckeWeights(order=3), store=store)
            want = list(np.cumsum([0] + [a_.size for a_ in ats]))
            ok = list(map(int, mol.indices)) == want and all(np.allclose(mol.get_atomic_grid(i).points, ats[i].points) for i in range(natom))
            if not ok:
                bad.append(dict(atoms=natom, store=store, indices=list(map(int, mol.indices)), expected=want))
    (ctx.ok if not bad else ctx.fail)(f"{natom} atoms, Becke weights (chunked): indices == prefix sums and per-atom grids intact after construction", detail=str(bad[:1]), key="MolGrid:becke:indices",
                                      replay=(lambda m: (True, dict(first=bad[:1]))), **({} if not bad else dict(model={})))
    ctx.twins_sat += 1


def job_fanout(ctx: Ctx, which):
    an, ag, bg, mg, bk, ut = install()
    e = ctx.engine
    ctx.encoded(mg.MolGrid.from_size, mg.MolGrid.from_preset, mg.MolGrid.from_pruned, mg._generate_default_rgrid)
    natom = 3
    nums = np.array([8, 1, 6])
    X = arr([real(f"X{i}_{a}") for i in range(natom) for a in range(3)], (natom, 3))
    key = f"MolGrid.{which}:fan-out"
    log = []

    class FakeAtom:
        def __init__(self, kind, *a, **k):
            self.kind, self.a, self.k = kind, a, k
            self.size = 1
            log.append(self)

    class AtomStub:
        def __new__(cls, *a, **k):
            return FakeAtom("init", *a, **k)

        @staticmethod
        def from_preset(*a, **k):
            return FakeAtom("from_preset", *a, **k)

        @staticmethod
        def from_pruned(*a, **k):
            return FakeAtom("from_pruned", *a, **k)

    class MolCapture(mg.MolGrid):
        def __init__(self, atnums, atgrids, aim_weights, store=False):
            self.cap = dict(atnums=atnums, atgrids=atgrids, aim=aim_weights, store=store)
    real_atom, real_default = mg.AtomGrid, mg._generate_default_rgrid
    mg.AtomGrid = AtomStub
    mg._generate_default_rgrid = lambda atnum: ("default-rgrid", int(atnum))
    rg_one = bg.OneDGrid(np.array([0.5, 1.0]), np.ones(2), (0, np.inf))
    rg_list = [bg.OneDGrid(np.array([0.1 * (i + 1), 1.0]), np.ones(2), (0, np.inf)) for i in range(natom)]
    rg_dict = {8: rg_list[0], 1: rg_list[1], 6: rg_list[2]}
    bad, n_ok = [], 0

    def check(label, cap, expect_rgrids, expect_kind, extra):
        nonlocal n_ok
        probs = []
        ats = cap["atgrids"]
        if len(ats) != natom:
            probs.append("number of atomic grids")
        for i, at in enumerate(ats[:natom]):
            if at.kind != expect_kind:
                probs.append(f"atom {i}: built with {at.kind}")
            rg = at.k.get("rgrid", at.a[0] if expect_kind != "from_preset" or at.a else None)
            if expect_kind == "from_preset":
                rg = at.k.get("rgrid")
            if rg is not expect_rgrids[i] and rg != expect_rgrids[i]:
                probs.append(f"atom {i}: radial grid is not the one prescribed for it ({rg!r})")
            ctr = at.k.get("center")
            if ctr is None or any(node_of(ctr[a]) is not node_of(X[i, a]) for a in range(3)):
                probs.append(f"atom {i}: centre")
            if at.k.get("rotate") != 21:
                probs.append(f"atom {i}: rotate")
            for kk, vv in extra(i).items():
                got = at.k.get(kk, None)
                if kk == "atnum":
                    got = at.k.get("atnum")
                if isinstance(vv, (list, np.ndarray)):
                    okv = got is not None and list(np.asarray(got).ravel()) == list(np.asarray(vv).ravel())
                else:
                    okv = got == vv
                if not okv:
                    probs.append(f"atom {i}: argument {kk}={got!r}, expected {vv!r}")
        if cap["store"] is not True or [int(v) for v in cap["atnums"]] != [8, 1, 6]:
            probs.append("store / atnums not handed on")
        if probs:
            bad.append((label, probs))
        else:
            n_ok += 1
    try:
        for rlabel, rgrid, expect in (("one", rg_one, [rg_one] * natom), ("list", rg_list, rg_list), ("dict", rg_dict, [rg_dict[int(z)] for z in nums]), ("none", None, [("default-rgrid", int(z)) for z in nums])):
            if which == "from_size":
                if rlabel in ("list", "dict"):
                    continue
                cap = MolCapture.from_size(nums, X, 50, rgrid=rgrid, aim_weights=np.ones(3), rotate=21, store=True).cap
                check(f"from_size/rgrid={rlabel}", cap, expect, "init", lambda i: dict(degrees=None, sizes=[50]))
            elif which == "from_preset":
                for plabel, preset, pexp in (("str", "fine", ["fine"] * natom), ("list", ["coarse", "fine", "sg_1"], ["coarse", "fine", "sg_1"]), ("dict", {8: "coarse", 1: "fine", 6: "sg_0"}, ["coarse", "fine", "sg_0"])):
                    cap = MolCapture.from_preset(nums, X, preset, rgrid=rgrid, aim_weights=np.ones(3), rotate=21, store=True).cap
                    check(f"from_preset/rgrid={rlabel}/preset={plabel}", cap, expect, "from_preset", lambda i, pexp=pexp: dict(atnum=int(nums[i]), preset=pexp[i]))
            else:
                if rlabel == "dict":
                    pass
                rs = [[0.5, 1.0], [0.3], [0.2, 0.4, 0.8]]
                ds = [[3, 5, 7], [9, 11], [3, 5, 7, 9]]
                ss = [[6, 14, 26], [38, 50], [6, 14, 26, 38]]
                for slabel, kw in (("d_sectors", dict(d_sectors=ds)), ("s_sectors", dict(s_sectors=ss))):
                    cap = MolCapture.from_pruned(nums, X, [1.0, 0.5, 0.9], rs, rgrid=rgrid, aim_weights=np.ones(3), rotate=21, store=True, **kw).cap
                    check(f"from_pruned/rgrid={rlabel}/{slabel}", cap, expect, "from_pruned",
                          lambda i, kw=kw: dict(r_sectors=rs[i], d_sectors=(ds[i] if "d_sectors" in kw else None), s_sectors=(ss[i] if "s_sectors" in kw else None)))
    finally:
        mg.AtomGrid, mg._generate_default_rgrid = real_atom, real_default
    for label, probs in bad[:6]:
        ctx.fail(f"{label}: per-atom arguments equal those of the by-hand construction", detail="; ".join(probs)[:300], key=key, replay=(lambda m, probs=probs: (True, dict(problems=probs))), model={})
    ctx.ok(f"{n_ok} argument patterns: every atom is built from its own radial grid / preset / sectors with its own (symbolic) centre and the given rotation seed", how="path")
    # from_pruned radius per atom: position 1 of AtomGrid.from_pruned
    ctx.twins_sat += 1


MOLECULES = {"HeH": ([2, 1], [[0, 0, 0], [0, 0, 1.5]]), "H2O": ([8, 1, 1], [[0, 0, 0.2], [0, 1.4, -0.9], [0, -1.4, -0.9]]), "NeAr": ([10, 18], [[0, 0, 0], [0, 0, 3.5]]),
             "CH4": ([6, 1, 1, 1, 1], [[0, 0, 0], [1.2, 1.2, 1.2], [-1.2, -1.2, 1.2], [1.2, -1.2, -1.2], [-1.2, 1.2, -1.2]]), "LiF": ([3, 9], [[0, 0, -1.5], [0, 0, 1.5]])}
ALL_PRESETS = ["coarse", "medium", "fine", "veryfine", "ultrafine", "insane", "sg_0", "sg_1", "sg_2", "sg_3", "g1", "g2", "g3", "g4", "g5", "g6", "g7"]


def job_end_to_end(ctx: Ctx, preset, tier):
    """end-to-end clause on the float code (numerical accuracy is not a solver question): MolGrid.from_preset with the default radial grids and Becke
    weights integrates a sum of normalised atom-centred Gaussians (exponents 0.3, 3, 30) to the total charge within one percent.  Ground enumeration."""
    import warnings
    warnings.simplefilter("ignore")
    from grid.molgrid import MolGrid
    from grid.becke import BeckeWeights
    ctx.encoded(MolGrid.from_preset)
    names = ["HeH", "H2O", "NeAr"] if tier == "quick" else list(MOLECULES)
    if preset in ("ultrafine", "insane") and tier == "quick":
        names = ["HeH"]
    for name in names:
        z, x = np.array(MOLECULES[name][0]), np.array(MOLECULES[name][1], float)
        key = f"end-to-end:{preset}:default-rgrid"
        try:
            mg = MolGrid.from_preset(z, x, preset=preset, aim_weights=BeckeWeights())
        except Exception as ex:
            msg = f"{type(ex).__name__}: {str(ex)[:120]}"
            ctx.fail(f"MolGrid.from_preset({name}, {preset!r}) with the default radial grids builds", msg, key=key + ":raises", replay=lambda m, msg=msg: (True, dict(raised=msg)), model={})
            continue
        worst = {}
        for a in (0.3, 3.0, 30.0):
            rho = sum((a / np.pi) ** 1.5 * np.exp(-a * np.sum((mg.points - c) ** 2, axis=1)) for c in x)
            err = float(mg.integrate(rho) / len(z) - 1)
            if not abs(err) <= 0.01:
                worst[a] = err
        if worst:
            ctx.fail(f"{name}/{preset}: total charge within 1 %", detail=str(worst), key=key, replay=lambda m, worst=worst, name=name: (True, dict(molecule=name, preset=preset, relative_errors=worst)), model={})
        else:
            ctx.ok(f"{name}/{preset}: Gaussians of exponent 0.3, 3, 30 integrate to the total charge within 1 %", how="ground enumeration (not a solver obligation)")
    ctx.twins_sat += 1


def jobs(tier):
    js = [Job(f"end-to-end/{p_}", job_end_to_end, p_, tier) for p_ in ALL_PRESETS]
    js += [Job("init/2atoms/array", job_init, 2, 1, "array"), Job("init/2atoms/callable", job_init, 2, 1, "callable"), Job("init/1atom/callable", job_init, 1, 2, "callable"),
          Job("init/3atoms/array", job_init, 3, 1, "array"), Job("becke-indices/4", job_becke_indices, 4), Job("becke-indices/5", job_becke_indices, 5)]
    js += [Job(f"fanout/{w}", job_fanout, w) for w in ("from_size", "from_preset", "from_pruned")]
    if tier == "thorough":
        js += [Job("init/2atoms/2shells/callable", job_init, 2, 2, "callable"), Job("init/3atoms/callable", job_init, 3, 1, "callable")]
    only = os.environ.get("SYMGRID_ONLY")
    return [j for j in js if not only or only in j.name]


def main():
    t0 = time.time()
    res = harness.run_jobs(jobs(harness.tier()))
    return harness.finish(
        PROP, res, t0, "DESIGN.md#c07",
        bounds=dict(init="1-3 atoms, 1-2 symbolic radial shells each (Lebedev degree 3), symbolic centres; aim weights as symbolic array and as a callable returning uninterpreted values; store on and off",
                    becke="4 and 5 atoms with the real BeckeWeights (chunked) - concrete geometries", fanout="from_size / from_preset / from_pruned with OneDGrid / list / dict / default radial grids, str / list / dict presets, d_ and s_sectors"),
        outside=["the end-to-end 1 % charge clause is not a solver question: it is sampled by ground jobs (17 presets x 3-5 molecules incl. noble gases x 3 exponents) on the float code", "atomic grids with more shells / higher degrees (size-independent code path)"],
        assumptions=["np.load contents lifted to exact constants", "fan-out jobs replace AtomGrid and _generate_default_rgrid by recording stubs (the atomic constructors themselves are C05)"])


if __name__ == "__main__":
    sys.exit(main())
