"""C04 - transforming a 1-D grid is a faithful change of variables (BaseTransform.transform_1d_grid, OneDGrid.__init__).

Two kinds of jobs (assume/guarantee):
  wiring/*   the real transform_1d_grid + OneDGrid.__init__ are executed with an ABSTRACT strictly monotone transform
             (uninterpreted T, T', either direction, finite or infinite/trimmed image of the domain end): one run covers
             every transform that satisfies the contract.
  contract/* every concrete class of rtransform.py is shown to satisfy that contract on its real code
             (deriv == d transform/dx, strict sign of deriv, image of the finite domain's end points).
"""
import sys, time, os
import numpy as np
from fractions import Fraction
from symgrid import dag, poly, smt, sym, npproxy, harness
from symgrid.sym import Engine, Sym, real, K, f_and, f_or, f_not, cmp, node_of, TRUE
from symgrid.harness import Job, Ctx
from harness import C03

PROP = "C04"


def _mods():
    import grid.rtransform as rt, grid.basegrid as bg
    return rt, bg


def arr(vals):
    a = np.empty(len(vals), dtype=object)
    a[:] = vals
    return a


# ----------------------------------------------------------------------------- replay (float code, concrete stand-ins)
def replay_wiring(n, direction, what, infend):
    def replay(m):
        rt, bg = _mods()
        with C03.unpatched(rt, bg):
            xs = np.array([float(m.get(f"x{i}", 0.0)) for i in range(n)])
            ws = np.array([float(m.get(f"w{i}", 1.0)) for i in range(n)])
            lo, hi = float(m.get("lo", -1)), float(m.get("hi", 1))
            # concrete stand-in with the same direction on a domain that contains [lo, hi]
            if direction == "inc":
                tf = rt.LinearFiniteRTransform(0.0, 1.0) if not infend else rt.BeckeRTransform(0.0, 1.0)
            else:
                tf = rt.MultiExpRTransform(0.0, 1.0)
            # map the model's nodes affinely into (-1, 1) keeping their order
            span = max(hi - lo, 1e-9)
            f = (lambda v: -0.9 + 1.8 * (v - lo) / span) if not infend else (lambda v: -1 + 2 * (v - lo) / span)
            xs2 = np.array([f(v) for v in xs])
            dom = (f(lo), f(hi))
            info = dict(stand_in=type(tf).__name__, points=xs2.tolist(), weights=ws.tolist(), domain=list(dom))
            try:
                g = bg.OneDGrid(xs2, ws, dom)
            except ValueError as ex:
                return None, dict(info, note=f"model is not a valid OneDGrid: {ex}")
            try:
                ng = tf.transform_1d_grid(g)
            except Exception as ex:
                info["raised"] = f"{type(ex).__name__}: {ex}"
                return what == "no-exception", info
            info.update(new_points=ng.points.tolist(), new_weights=ng.weights.tolist(), new_domain=[float(v) for v in ng.domain])
            h = 1e-6
            jac = np.abs((tf.transform(xs2 + h) - tf.transform(xs2 - h)) / (2 * h))
            info["expected_weights"] = (ws * jac).tolist()
            if what == "nonneg":
                return bool(np.any((ws >= 0) & (ng.weights < 0))), info
            if what in ("weights", "sum"):
                return bool(np.any(np.abs(ng.weights - ws * jac) > 1e-5 * np.maximum(np.abs(ws * jac), 1e-300))), info
            if what == "points":
                return bool(np.any(np.abs(ng.points - tf.transform(xs2)) > 1e-12 * np.maximum(1, np.abs(ng.points)))), info
            if what == "domain":
                l2, h2 = ng.domain
                img = np.sort(tf.transform(np.array(dom, dtype=float)))
                info["ordered_image_of_old_domain"] = img.tolist()
                wrong_image = not np.allclose(np.array([l2, h2], dtype=float), img, rtol=1e-9, atol=1e-12)
                return bool(wrong_image or l2 > h2 or np.any(ng.points < l2 - 1e-7) or np.any(ng.points > h2 + 1e-7)), info
        return None, {}
    return replay


# ----------------------------------------------------------------------------- wiring with an abstract monotone transform
def job_wiring(ctx: Ctx, n, direction, infend):
    """infend: None (finite images), 'trim' (image of the upper domain end is the stand-in 1e16), 'raw' (it is +inf)."""
    rt, bg = _mods()
    npproxy.install(rt)
    npproxy.install(bg)
    e = ctx.engine
    xs = [real(f"x{i}") for i in range(n)]
    ws = [real(f"w{i}") for i in range(n)]
    lo, hi = real("lo"), real("hi")
    ctx.encoded(rt.BaseTransform.transform_1d_grid, rt.BaseTransform._convert_inf, bg.OneDGrid.__init__, bg.Grid.__init__)
    ctx.bounds.update(dict(nodes=n, direction=direction, image_of_end=infend or "finite"))
    T = lambda v: Sym(dag.uf("T", [node_of(v)]))
    dT = lambda v: Sym(dag.uf("T", [node_of(v)], (1,)))
    sing = hi if direction == "inc" else lo          # the end point whose image is infinite (if any)

    class AbstractTransform(rt.BaseTransform):
        def __init__(self):
            self._domain = (real("dlo"), real("dhi"))
            self._codomain = (None, None)
            self.trim_inf = infend == "trim"

        def _one(self, v):
            if infend and isinstance(v, Sym) and v.n is sing.n:
                return float("inf")
            return T(v)

        def transform(self, x):
            r = arr([self._one(v) for v in x])
            return self._convert_inf(r) if self.trim_inf else r

        def deriv(self, x):
            return arr([dT(v) for v in x])

        def deriv2(self, x):
            return arr([Sym(dag.uf("T", [node_of(v)], (2,))) for v in x])

        deriv3 = deriv2

        def inverse(self, r):
            raise NotImplementedError

    dlo, dhi = real("dlo"), real("dhi")
    e.assume(dlo <= lo, lo < hi, hi <= dhi)
    for x in xs:
        e.assume(x >= lo, x <= hi)
        if infend:
            e.assume(x < hi, x > lo)
    # contract of the abstract transform on the evaluated points
    pts = xs + [lo, hi]
    big = K(10) ** 16
    for i, u in enumerate(pts):
        if infend and u.n is sing.n:
            continue
        e.assume(T(u) < big, T(u) > -big)
        for j, v in enumerate(pts):
            if i != j and not (infend and v.n is sing.n):
                e.assume(f_or(f_not((u < v).f), ((T(u) < T(v)) if direction == "inc" else (T(u) > T(v))).f))
                e.assume(f_or(f_not((u == v).f), (T(u) == T(v)).f))
    for x in xs:
        e.assume(dT(x) > 0 if direction == "inc" else dT(x) < 0)

    def body():
        tf = AbstractTransform()
        g = bg.OneDGrid(arr(xs), arr(ws), (lo, hi))
        ng = tf.transform_1d_grid(g)
        return ng.points, ng.weights, ng.domain, ng
    paths = e.run(body)
    ctx.paths += len(paths)
    R = lambda what: replay_wiring(n, direction, what, infend)
    key = f"transform_1d_grid:{'decreasing' if direction == 'dec' else 'increasing'}-map"
    g = lambda v: Sym(dag.uf("g", [node_of(v)]))
    for p in paths:
        if p.exc is not None:
            ctx.fail("returns a grid (no exception) for a valid grid inside the transform's domain", f"{type(p.exc).__name__}: {str(p.exc)[:200]}",
                     replay=R("no-exception"), key=f"{key}:raises", model=ctx.model_for(p.pc) or {})
            continue
        ctx.twin(p.pc, "grid")
        npts, nw, ndom, ng = p.result
        lhs, rhs = K(0), K(0)
        sgn = 1 if direction == "inc" else -1
        for i in range(n):
            ctx.eq(f"new_points[{i}] == T(x{i})", npts[i], T(xs[i]), p.pc, replay=R("points"), key=f"{key}:points")
            ctx.eq(f"new_weights[{i}] == w{i} * |T'(x{i})|", nw[i], ws[i] * dT(xs[i]) * sgn, p.pc, replay=R("weights"), key=f"{key}:weights-abs-jacobian")
            ctx.holds(f"w{i} >= 0  =>  new_weights[{i}] >= 0", (~(ws[i] >= 0)) | (nw[i] >= 0), p.pc, replay=R("nonneg"), key=f"{key}:weights-abs-jacobian")
            ctx.holds(f"new_domain contains new_points[{i}]", (npts[i] >= ndom[0]) & (npts[i] <= ndom[1]), p.pc, replay=R("domain"), key=f"{key}:domain")
            lhs = lhs + nw[i] * g(npts[i])
            rhs = rhs + ws[i] * g(T(xs[i])) * dT(xs[i]) * sgn
        ctx.holds("new_domain is ascending", ndom[0] <= ndom[1], p.pc, replay=R("domain"), key=f"{key}:domain")
        img = sorted_pair(T(lo) if not (infend and sing.n is lo.n) else None, T(hi) if not (infend and sing.n is hi.n) else None, direction, infend)
        for k in (0, 1):
            if img[k] is not None and isinstance(ndom[k], Sym):
                ctx.eq(f"new_domain[{k}] is the ordered image of the old domain", ndom[k], img[k], p.pc, replay=R("domain"), key=f"{key}:domain")
            elif img[k] is None:
                want = (1e16 if infend == "trim" else float("inf")) * (1 if k == 1 else -1)
                if direction == "dec" and infend:
                    want = abs(want)      # T(lo) = +inf for a decreasing map: the ordered image still ends at +inf / 1e16
                ok = (not isinstance(ndom[1], Sym)) and float(ndom[1]) == abs(want)
                (ctx.ok if ok else ctx.fail)(f"new_domain upper end is the stand-in for infinity ({abs(want)})", detail=str(ndom))
        ctx.eq("sum_i new_w_i g(new_x_i) == sum_i w_i g(T(x_i)) |T'(x_i)|   (uninterpreted integrand g)", lhs, rhs, p.pc, replay=R("sum"), key=f"{key}:weights-abs-jacobian")


def sorted_pair(tlo, thi, direction, infend):
    if direction == "inc":
        return (tlo, thi)
    return (thi, tlo)


# ----------------------------------------------------------------------------- contract per concrete class
def replay_contract(cfg, what):
    def replay(m):
        rt, bg = _mods()
        with C03.unpatched(rt, bg):
            P = {k: float(m.get(k, 1.0)) for k in cfg["pnames"]}
            tf = cfg["mk"](rt, P)
            x1, x2 = float(m.get("x1", 0.0)), float(m.get("x2", 0.0))
            if what == "deriv":
                xv = float(m.get("x", 0.0))
                h = 1e-6 * max(1, abs(xv))
                fd = (tf.transform(np.array([xv + h]))[0] - tf.transform(np.array([xv - h]))[0]) / (2 * h)
                got = tf.deriv(np.array([xv]))[0]
                return abs(fd - got) > 1e-5 * max(abs(fd), abs(got)), dict(params=P, x=xv, deriv=float(got), finite_difference=float(fd))
            if what == "sign":
                d = tf.deriv(np.array([x1, x2]))
                return bool(d[0] * d[1] <= 0), dict(params=P, x1=x1, x2=x2, deriv=[float(v) for v in d])
            if what == "ends":
                img = np.sort(tf.transform(np.array(tf.domain, dtype=float)))
                cod = [1e16 if (isinstance(v, float) and np.isinf(v) and v > 0) else float(v) for v in tf.codomain]
                bad = not np.allclose(img, cod, rtol=1e-9, atol=1e-12)
                return bad, dict(params=P, sorted_image_of_domain_ends=[float(v) for v in img], codomain=cod)
        return None, {}
    return replay


def job_contract(ctx: Ctx, cfg):
    rt, bg = _mods()
    npproxy.install(rt)
    npproxy.install(bg)
    e = ctx.engine
    P = {k: real(k) for k in cfg["pnames"]}
    x, x1, x2 = real("x"), real("x1"), real("x2")
    e.assume(*cfg["assume"](P))
    cls = getattr(rt, cfg["cls"])
    ctx.encoded(cls)
    ctx.bounds.update(dict(cls=cfg["cls"], exponent=cfg["fk"]))
    key = cfg["cls"] + ":contract"
    saved = list(e.assumptions)
    e.assume(*cfg["dom"](x, P))

    def f1():
        tf = cfg["mk"](rt, P)
        return tf.transform(arr([x]))[0], tf.deriv(arr([x]))[0]
    for p in e.run(f1):
        ctx.paths += 1
        if p.exc is not None:
            ctx.fail("contract:no-exception", f"{type(p.exc).__name__}: {p.exc}", key=key + ":raises")
            continue
        ctx.twin(p.pc, "contract")
        t, d = p.result
        ctx.eq("deriv(x) == d transform/dx (the Jacobian used for the weights)", d, Sym(dag.diff(node_of(t), x.n)), p.pc, replay=replay_contract(cfg, "deriv"), key=key + ":deriv")
    e.assumptions = list(saved)
    e.assume(*cfg["dom"](x1, P))
    e.assume(*cfg["dom"](x2, P))

    def f2():
        tf = cfg["mk"](rt, P)
        d = tf.deriv(arr([x1, x2]))
        return d[0], d[1]
    for p in e.run(f2):
        ctx.paths += 1
        if p.exc is not None:
            continue
        da, db = p.result
        ctx.holds("deriv keeps one strict sign on the domain (strictly monotone map)", ((da > 0) & (db > 0)) | ((da < 0) & (db < 0)), p.pc,
                  replay=replay_contract(cfg, "sign"), key=key + ":monotone")
    # images of the finite domain's end points (with trimming on): finite numbers, ordered, the infinite one replaced by 1e16
    e.assumptions = list(saved)
    if "rmin" in P:
        e.assume(P["rmin"] < K(10) ** 16)

    def f3():
        tf = cfg["mk"](rt, P)
        if any(isinstance(d, float) and np.isinf(d) for d in tf.domain):
            return None
        return tuple(np.sort(tf.transform(np.array(tf.domain)))), tf.codomain
    for p in e.run(f3):
        ctx.paths += 1
        if p.exc is not None:
            ctx.fail("image of the domain end points is computable", f"{type(p.exc).__name__}: {p.exc}", key=key + ":ends", replay=replay_contract(cfg, "ends"))
            continue
        if p.result is None:
            ctx.note("half-line domain: end point +inf not evaluated")
            continue
        (a, b), cod = p.result
        RE = replay_contract(cfg, "ends")
        ctx.holds("image of (-1, 1) is ascending and finite", a <= b, p.pc, key=key + ":ends", replay=RE)
        ctx.eq("lower image end == codomain[0]", a, cod[0], p.pc, key=key + ":ends", replay=RE)
        if isinstance(cod[1], float) and np.isinf(cod[1]):
            (ctx.ok if (not isinstance(b, Sym) and float(b) == 1e16) else ctx.fail)("infinite image end is represented by 1e16 when trimming is on", detail=repr(b), key=key + ":ends", replay=RE)
        else:
            ctx.eq("upper image end == codomain[1]", b, cod[1], p.pc, key=key + ":ends", replay=RE)


def job_contract_endnode(ctx: Ctx, cfg):
    """closed rules put a node on the finite end point x = -1: the Jacobian used there must be the derivative of the map there."""
    rt, bg = _mods()
    npproxy.install(rt)
    npproxy.install(bg)
    e = ctx.engine
    P = {k: real(k) for k in cfg["pnames"]}
    x = real("x")
    e.assume(*cfg["assume"](P))
    ctx.encoded(getattr(rt, cfg["cls"]))
    key = cfg["cls"] + ":contract:end-node"

    def replay(m):
        with C03.unpatched(rt, bg):
            Pf = {k: float(m.get(k, 1.0)) for k in cfg["pnames"]}
            tf = cfg["mk"](rt, Pf)
            h = 1e-6
            t = lambda v: float(tf.transform(np.array([v]))[0])
            fd = (-3 * t(-1.0) + 4 * t(-1.0 + h) - t(-1.0 + 2 * h)) / (2 * h)
            got = float(tf.deriv(np.array([-1.0]))[0])
            return abs(got - fd) > 1e-4 * max(abs(fd), abs(got), 1e-12), dict(params=Pf, deriv_at_minus_one=got, one_sided_finite_difference=fd)

    def body():
        tf = cfg["mk"](rt, P)
        if tf.domain[0] != -1:
            return None
        return tf.transform(arr([x]))[0], tf.deriv(arr([K(-1)]))[0]
    for p in e.run(body):
        ctx.paths += 1
        if p.exc is not None:
            ctx.fail("deriv at the end node:no-exception", f"{type(p.exc).__name__}: {p.exc}", key=key, replay=replay, model=ctx.model_for(p.pc) or {})
            continue
        if p.result is None:
            continue
        t, d_end = p.result
        try:
            want = dag.subst(dag.diff(node_of(t), x.n), {x.n: dag.const(-1)})
        except ZeroDivisionError:
            ok = not isinstance(d_end, Sym)        # singular end (e.g. MultiExp): the code must report an infinite / trimmed value, not a finite number
            (ctx.ok if ok else ctx.fail)("Jacobian at a singular end point is reported as infinite", detail=repr(d_end), key=key, replay=replay)
            continue
        ctx.eq("deriv(-1) == d transform/dx at x = -1 (Jacobian for a node on the closed end point)", d_end, Sym(want), p.pc, replay=replay, key=key)


def job_transported(ctx: Ctx, n):
    """exactness is transported: a rule ASSUMED exact to degree 2n-1 on [-1,1] (moment equations as assumptions), mapped linearly to [a,b]
    by the real LinearFiniteRTransform.transform_1d_grid, integrates every monomial of degree <= 2n-1 over [a,b] exactly (symbolic a < b)."""
    rt, bg = _mods()
    npproxy.install(rt)
    npproxy.install(bg)
    e = ctx.engine
    ctx.encoded(rt.LinearFiniteRTransform, rt.BaseTransform.transform_1d_grid)
    xs = [real(f"x{i}") for i in range(n)]
    ws = [real(f"w{i}") for i in range(n)]
    a, b = real("a"), real("b")
    e.assume(a < b)
    for i in range(n):
        e.assume(xs[i] > -1, xs[i] < 1)
        if i:
            e.assume(xs[i] > xs[i - 1])
    deg = 2 * n - 1
    for k in range(deg + 1):
        mom = K(0)
        for i in range(n):
            mom = mom + ws[i] * (xs[i] ** k if k else 1)
        e.assume(mom == (K(Fraction(2, k + 1)) if k % 2 == 0 else K(0)))
    key = "transported-exactness"
    ctx.bounds.update(dict(nodes=n, degree=deg, interval="symbolic a < b"))

    def replay(m):
        with C03.unpatched(rt, bg):
            from grid.onedgrid import GaussLegendre
            av, bv = float(m.get("a", 0.5)), float(m.get("b", 3.0))
            g = rt.LinearFiniteRTransform(av, bv).transform_1d_grid(GaussLegendre(n))
            bad = {}
            for k in range(deg + 1):
                got = float(np.sum(g.weights * g.points ** k))
                want = (bv ** (k + 1) - av ** (k + 1)) / (k + 1)
                if abs(got - want) > 1e-9 * max(1, abs(want)):
                    bad[k] = dict(quadrature=got, exact=want)
            return bool(bad), dict(a=av, b=bv, nodes=n, wrong_monomials=bad)
    for p in e.run(lambda: rt.LinearFiniteRTransform(a, b).transform_1d_grid(bg.OneDGrid(arr(xs), arr(ws), (-1, 1)))):
        ctx.paths += 1
        if p.exc is not None:
            ctx.fail("transform_1d_grid returns", f"{type(p.exc).__name__}: {p.exc}", key=key, replay=replay, model=ctx.model_for(p.pc) or {})
            continue
        if ctx.twin(p.pc) != "sat":
            ctx.note("reachability twin not sat (moment equations are satisfiable by the Gauss-Legendre rule; z3 did not exhibit it in time)")
        g = p.result
        for k in range(deg + 1):
            quad = K(0)
            for i in range(n):
                quad = quad + g.weights[i] * (g.points[i] ** k if k else 1)
            ctx.eq(f"sum_i w'_i r_i^{k} == (b^{k + 1} - a^{k + 1})/{k + 1}", quad, (b ** (k + 1) - a ** (k + 1)) / (k + 1), p.pc, replay=replay, key=key)


def job_integrate(ctx: Ctx, n):
    """the summation itself: Grid.integrate(f1, ..., fk) == sum_i w_i f1_i ... fk_i for symbolic weights and integrand values, one to three arrays,
    the same array twice, and complex-valued integrands (no conjugation, real and imaginary part separately)."""
    from symgrid.angles import SymComplex
    rt, bg = _mods()
    npproxy.install(bg)
    e = ctx.engine
    ctx.encoded(bg.Grid.integrate)
    pts = np.empty((n, 1), dtype=object)
    w = np.empty(n, dtype=object)
    f, g, h = (np.empty(n, dtype=object) for _ in range(3))
    zc = np.empty(n, dtype=object)
    for i in range(n):
        pts[i, 0], w[i], f[i], g[i], h[i] = real(f"x{i}"), real(f"w{i}"), real(f"f{i}"), real(f"g{i}"), real(f"h{i}")
        zc[i] = SymComplex(real(f"re{i}"), real(f"im{i}"))
    grid = bg.Grid(pts, w)
    key = "Grid.integrate"

    def replay(m):
        with C03.unpatched(bg):
            rng = np.random.default_rng(3)
            ww, ff, gg = rng.uniform(0.1, 1, n), rng.normal(size=n), rng.normal(size=n)
            zz = rng.normal(size=n) + 1j * rng.normal(size=n)
            G = bg.Grid(rng.normal(size=(n, 1)), ww)
            out = dict(real=float(G.integrate(ff)), real_expected=float(np.sum(ww * ff)), two=float(G.integrate(ff, gg)), two_expected=float(np.sum(ww * ff * gg)))
            zc_ = G.integrate(zz)
            z2 = G.integrate(zz, ff)
            out.update(complex=[float(np.real(zc_)), float(np.imag(zc_))], complex_expected=[float(np.sum(ww * zz).real), float(np.sum(ww * zz).imag)])
            bad = abs(out["real"] - out["real_expected"]) > 1e-12 or abs(out["two"] - out["two_expected"]) > 1e-12 or abs(zc_ - np.sum(ww * zz)) > 1e-12 or abs(z2 - np.sum(ww * zz * ff)) > 1e-12
            return bool(bad), out
    cases = {"one real array": ([f], lambda i: f[i]), "two real arrays": ([f, g], lambda i: f[i] * g[i]), "three real arrays": ([f, g, h], lambda i: f[i] * g[i] * h[i]),
             "the same array twice": ([f, f], lambda i: f[i] * f[i])}
    for label, (arrs, term) in cases.items():
        for p in e.run(lambda arrs=arrs: grid.integrate(*arrs)):
            ctx.paths += 1
            if p.exc is not None:
                ctx.fail(f"integrate({label}) returns", f"{type(p.exc).__name__}: {str(p.exc)[:160]}", key=key, replay=replay, model={})
                continue
            want = K(0)
            for i in range(n):
                want = want + w[i] * term(i)
            ctx.eq(f"integrate({label}) == sum_i w_i prod_j f_j(i)", p.result, want, p.pc, key=key, replay=replay)
    for label, arrs, term in (("one complex array", [zc], lambda i: (zc[i].re, zc[i].im)), ("complex and real array", [zc, f], lambda i: (zc[i].re * f[i], zc[i].im * f[i]))):
        for p in e.run(lambda arrs=arrs: grid.integrate(*arrs)):
            ctx.paths += 1
            if p.exc is not None:
                ctx.fail(f"integrate({label}) returns", f"{type(p.exc).__name__}: {str(p.exc)[:160]}", key=key, replay=replay, model={})
                continue
            wr, wi = K(0), K(0)
            for i in range(n):
                a_, b_ = term(i)
                wr, wi = wr + w[i] * a_, wi + w[i] * b_
            res = p.result.item() if isinstance(p.result, np.ndarray) else p.result
            if not isinstance(res, SymComplex):
                ctx.fail(f"integrate({label}) is complex", f"got {type(res).__name__}", key=key, replay=replay, model={})
                continue
            ctx.eq(f"Re integrate({label}) == sum_i w_i Re f_i", res.re, wr, p.pc, key=key, replay=replay)
            ctx.eq(f"Im integrate({label}) == sum_i w_i Im f_i (no conjugation)", res.im, wi, p.pc, key=key, replay=replay)
    ctx.twin(())


def job_dtype(ctx: Ctx):
    """a rule whose nodes are stored with an integer dtype (e.g. Simpson nodes -1, 0, 1) is the same rule: every class gives the same transformed grid
    as for the float copy of the nodes.  dtype is not a symbolic quantity: ground enumeration over the 12 classes (float code)."""
    rt, bg = _mods()
    ctx.encoded(rt.BaseTransform.transform_1d_grid)
    import warnings
    warnings.simplefilter("ignore")
    bad, rejected = {}, []
    with C03.unpatched(rt, bg):
        mk = {"BeckeRTransform": lambda: rt.BeckeRTransform(0.1, 1.3), "LinearFiniteRTransform": lambda: rt.LinearFiniteRTransform(0.0, 5.0), "LinearFiniteRTransform[0,1]": lambda: rt.LinearFiniteRTransform(0.0, 1.0),
              "MultiExpRTransform": lambda: rt.MultiExpRTransform(0.1, 1.3), "KnowlesRTransform": lambda: rt.KnowlesRTransform(0.1, 1.3, 2), "HandyRTransform": lambda: rt.HandyRTransform(0.1, 1.3, 2),
              "HandyModRTransform": lambda: rt.HandyModRTransform(0.1, 9.7, 2), "IdentityRTransform": lambda: rt.IdentityRTransform(),
              "LinearInfiniteRTransform": lambda: rt.LinearInfiniteRTransform(0.1, 7.3, b=4), "ExpRTransform": lambda: rt.ExpRTransform(0.1, 7.3, b=4), "PowerRTransform": lambda: rt.PowerRTransform(0.1, 7.3, b=4),
              "HyperbolicRTransform": lambda: rt.HyperbolicRTransform(0.6, 0.2)}
        for name, make in mk.items():
            unit = name.split("[")[0] in ("BeckeRTransform", "LinearFiniteRTransform", "MultiExpRTransform", "KnowlesRTransform", "HandyRTransform", "HandyModRTransform")
            xi = np.array([-1, 0, 1]) if unit else np.array([0, 1, 2, 3])
            wi = np.array([1, 4, 1]) if unit else np.array([1, 2, 2, 1])
            dom = (-1, 1) if unit else (0, 3)
            try:
                gi = make().transform_1d_grid(bg.OneDGrid(xi, wi, dom))
                gf = make().transform_1d_grid(bg.OneDGrid(xi.astype(float), wi.astype(float), dom))
                ok = np.allclose(gi.points, gf.points, rtol=1e-13, atol=0, equal_nan=True) and np.allclose(gi.weights, gf.weights, rtol=1e-13, atol=0, equal_nan=True)
                if not ok:
                    bad[name] = dict(integer_nodes=dict(points=gi.points.tolist(), weights=gi.weights.tolist()), float_nodes=dict(points=gf.points.tolist(), weights=gf.weights.tolist()))
                tf = make()
                for meth in ("transform", "deriv", "deriv2", "deriv3"):
                    a_, b_ = getattr(tf, meth)(xi[1:-1] if not unit else xi), getattr(make(), meth)((xi[1:-1] if not unit else xi).astype(float))
                    if not np.allclose(a_, b_, rtol=1e-13, atol=0, equal_nan=True):
                        bad[f"{name}.{meth}"] = dict(integer_input=np.asarray(a_, float).tolist(), float_input=np.asarray(b_, float).tolist())
            except (ValueError, TypeError) as ex:
                # NumPy refuses some integer operations outright ("Integers to negative integer powers are not allowed"): an explicit rejection is not a
                # wrong grid; only a call that returns is compared
                rejected.append(f"{name}: {str(ex)[:60]}")
            except Exception as ex:
                bad[name] = f"{type(ex).__name__}: {ex}"
    ctx.note(f"integer-dtype input rejected explicitly by: {rejected}")
    (ctx.ok if not bad else ctx.fail)("integer-dtype nodes/weights, where accepted, give the same transformed grid and derivatives as their float copy (12 classes)", detail=str(bad)[:300], key="transform_1d_grid:integer-dtype",
                                      how="ground enumeration (not a solver obligation)", replay=(lambda m: (True, bad)), **({} if not bad else dict(model={})))
    ctx.twins_sat += 1


def jobs(tier):
    js = [Job("transported/2", job_transported, 2), Job("integrate/n=3", job_integrate, 3), Job("dtype/integer-nodes", job_dtype)]          # n = 3 (degree 5): z3 returns unknown after 14 min - bound stated
    for n in ((1, 2, 3) if tier == "quick" else (1, 2, 3, 4)):
        for direction in ("inc", "dec"):
            for infend in (None, "trim", "raw"):
                js.append(Job(f"wiring/n={n}/{direction}/{infend or 'finite'}", job_wiring, n, direction, infend))
    for cfg in C03.configs(tier):
        js.append(Job(f"contract/{cfg['name']}", job_contract, cfg))
        js.append(Job(f"contract-endnode/{cfg['name']}", job_contract_endnode, cfg))
    only = os.environ.get("SYMGRID_ONLY")
    if only:
        js = [j for j in js if only in j.name]
    return js


def main():
    t0 = time.time()
    res = harness.run_jobs(jobs(harness.tier()))
    return harness.finish(
        PROP, res, t0, "DESIGN.md#c04",
        bounds=dict(nodes="1..3 (quick) / 1..4 (thorough) symbolic nodes and weights in a symbolic sub-interval [lo,hi] of the transform's domain",
                    transform="abstract strictly monotone T (both directions; finite, trimmed-infinite and infinite image of the singular end point) + contract check for all 12 classes, "
                              "integer exponents <= 4 (quick) / 6 (thorough)", integrand="uninterpreted function g"),
        outside=["transported exactness with the real Gauss-Legendre node values (LAPACK eigenvalues, see C01): the rule's exactness on [-1,1] is an assumption of the transported/* jobs", "images beyond the value 1e16 that stands in for infinity (nodes within ~1e-16 of the singular end point)",
                 "half-line domains with the concrete end point +inf", "IEEE rounding"],
        assumptions=["wiring jobs: T is any strictly monotone map with T' of matching strict sign and |T(x)| < 1e16 on the evaluated points; contract jobs discharge this for each class of rtransform.py",
                     "denominators of executed expressions non-zero", "exp/log axioms of symgrid/smt.py"])


if __name__ == "__main__":
    sys.exit(main())
