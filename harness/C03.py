"""C03 - radial transforms are analytically self-consistent (rtransform.py).

Per class and (enumerated) integer exponent: the real methods are executed on symbolic x / r and symbolic real
parameters; obligations are decided for all values in the domain / parameter region.
"""
import sys, time, itertools
import numpy as np
from fractions import Fraction
from symgrid import dag, poly, smt, sym, npproxy, harness
from symgrid.sym import Engine, Sym, real, K, f_and, f_or, f_not, cmp, node_of
from symgrid.harness import Job, Ctx

PROP = "C03"


def _load():
    import grid.rtransform as rt
    return rt


# name -> (factory(rt, P) , parameter names, assumptions(P) , domain(x, P) , codomain(r, P), kwargs enumerations)
def configs(tier):
    ks = (1, 2, 3, 4) if tier == "quick" else (1, 2, 3, 4, 5, 6)
    ms = (1, 2, 3) if tier == "quick" else (1, 2, 3, 4, 5)
    out = []

    def add(name, cls, pnames, mk, assume, dom, cod, fk=None, inv_ok=True, slices=None):
        out.append(dict(name=name, cls=cls, pnames=pnames, mk=mk, assume=assume, dom=dom, cod=cod, fk=fk, inv_ok=inv_ok, slices=slices))
    unit = lambda x, P: [x > -1, x < 1]
    pos = lambda x, P: [x > 0]
    add("Becke", "BeckeRTransform", ["rmin", "R"], lambda rt, P: rt.BeckeRTransform(P["rmin"], P["R"]),
        lambda P: [P["rmin"] >= 0, P["R"] > 0], unit, lambda r, P: [r > P["rmin"]])
    add("LinearFinite", "LinearFiniteRTransform", ["rmin", "rmax"], lambda rt, P: rt.LinearFiniteRTransform(P["rmin"], P["rmax"]),
        lambda P: [P["rmax"] > P["rmin"]], unit, lambda r, P: [r > P["rmin"], r < P["rmax"]])
    add("Identity", "IdentityRTransform", [], lambda rt, P: rt.IdentityRTransform(), lambda P: [], pos, lambda r, P: [r > 0])
    add("LinearInfinite", "LinearInfiniteRTransform", ["rmin", "rmax", "b"], lambda rt, P: rt.LinearInfiniteRTransform(P["rmin"], P["rmax"], P["b"]),
        lambda P: [P["rmax"] > P["rmin"], P["b"] > 0], pos, lambda r, P: [r > P["rmin"], r < P["rmax"]])
    add("Exp", "ExpRTransform", ["rmin", "rmax", "b"], lambda rt, P: rt.ExpRTransform(P["rmin"], P["rmax"], P["b"]),
        lambda P: [P["rmin"] > 0, P["rmax"] > P["rmin"], P["b"] > 0], pos, lambda r, P: [r > P["rmin"], r < P["rmax"]])
    add("Power", "PowerRTransform", ["rmin", "rmax", "b"], lambda rt, P: rt.PowerRTransform(P["rmin"], P["rmax"], P["b"]),
        lambda P: [P["rmin"] > 0, P["rmax"] > P["rmin"], P["b"] > 0], pos, lambda r, P: [r > P["rmin"], r < P["rmax"]])
    add("Hyperbolic", "HyperbolicRTransform", ["a", "b"], lambda rt, P: rt.HyperbolicRTransform(P["a"], P["b"]),
        lambda P: [P["a"] > 0, P["b"] > 0, P["b"] < 1], lambda x, P: [x > 0, P["b"] * x < 1], lambda r, P: [r > 0])
    add("MultiExp", "MultiExpRTransform", ["rmin", "R"], lambda rt, P: rt.MultiExpRTransform(P["rmin"], P["R"]),
        lambda P: [P["rmin"] >= 0, P["R"] > 0], unit, lambda r, P: [r > P["rmin"]])
    for k in ks:
        add(f"Knowles[k={k}]", "KnowlesRTransform", ["rmin", "R"], (lambda k: lambda rt, P: rt.KnowlesRTransform(P["rmin"], P["R"], k))(k),
            lambda P: [P["rmin"] >= 0, P["R"] > 0], unit, lambda r, P: [r > P["rmin"]], fk=k)
    for m in ks:
        add(f"Handy[m={m}]", "HandyRTransform", ["rmin", "R"], (lambda m: lambda rt, P: rt.HandyRTransform(P["rmin"], P["R"], m))(m),
            lambda P: [P["rmin"] >= 0, P["R"] > 0], unit, lambda r, P: [r > P["rmin"]], fk=m)
    for m in ms:
        add(f"HandyMod[m={m}]", "HandyModRTransform", ["rmin", "rmax"], (lambda m: lambda rt, P: rt.HandyModRTransform(P["rmin"], P["rmax"], m))(m),
            (lambda m: lambda P: [P["rmin"] >= 0, P["rmax"] - P["rmin"] > 2 ** m - 1])(m), unit, lambda r, P: [r > P["rmin"], r < P["rmax"]], fk=m,
            slices={"rmin": [0, 1], "rmax": [10, 40]})
    return out


# ----------------------------------------------------------------------------- replay on the float code
class unpatched:
    def __init__(self, *mods):
        self.mods = mods

    def __enter__(self):
        self.saved = [m.np for m in self.mods]
        for m in self.mods:
            m.np = np

    def __exit__(self, *a):
        for m, s in zip(self.mods, self.saved):
            m.np = s


def _fl(m, names):
    return {n: float(m.get(n, 1.0)) for n in names}


def make_replay(cfg, what, order=None, inverse_wrap=False):
    """independent oracle: Richardson central differences of the next-lower method of the *float* code; round trips directly."""
    def replay(m):
        rt = _load()
        with unpatched(rt):
            P = _fl(m, cfg["pnames"])
            tf = cfg["mk"](rt, P)
            if inverse_wrap:
                tf = rt.InverseRTransform(tf)
            xv = float(m.get("r" if what in ("deriv_inv", "fwd_inv") else "x", 0.5))
            arr = lambda v: np.array([v], dtype=float)
            if what == "deriv":
                meth = [tf.transform, tf.deriv, tf.deriv2, tf.deriv3]
                lo, hi = meth[order - 1], meth[order]
                h = 1e-3 * max(1.0, abs(xv))
                d = lambda hh: (float(np.atleast_1d(lo(arr(xv + hh)))[0]) - float(np.atleast_1d(lo(arr(xv - hh)))[0])) / (2 * hh)
                est = (4 * d(h / 2) - d(h)) / 3
                got = float(np.atleast_1d(hi(arr(xv)))[0])
                err = abs(got - est)
                scale = max(abs(got), abs(est), 1e-300)
                return err > 1e-5 * scale, dict(call=f"{type(tf).__name__}.{hi.__name__}", params=P, x=xv, got=got, finite_difference=est)
            if what == "deriv_inv":
                meth = [tf.inverse, tf.deriv_inverse, tf.deriv2_inverse, tf.deriv3_inverse]
                lo, hi = meth[order - 1], meth[order]
                h = 1e-3 * max(1.0, abs(xv))
                d = lambda hh: (float(np.atleast_1d(lo(arr(xv + hh)))[0]) - float(np.atleast_1d(lo(arr(xv - hh)))[0])) / (2 * hh)
                est = (4 * d(h / 2) - d(h)) / 3
                got = float(np.atleast_1d(hi(arr(xv)))[0])
                err = abs(got - est)
                scale = max(abs(got), abs(est), 1e-300)
                return err > 1e-5 * scale, dict(call=f"{type(tf).__name__}.{hi.__name__}", params=P, r=xv, got=got, finite_difference=est)
            if what == "inv_fwd":
                got = float(np.atleast_1d(tf.inverse(tf.transform(arr(xv))))[0])
                return abs(got - xv) > 1e-7 * max(1, abs(xv)), dict(call="inverse(transform(x))", params=P, x=xv, got=got)
            if what == "fwd_inv":
                got = float(np.atleast_1d(tf.transform(tf.inverse(arr(xv))))[0])
                return abs(got - xv) > 1e-7 * max(1, abs(xv)), dict(call="transform(inverse(r))", params=P, r=xv, got=got)
            if what == "monotone":
                x1, x2 = float(m.get("x1", 0)), float(m.get("x2", 0))
                d1 = float(np.atleast_1d(tf.deriv(arr(x1)))[0])
                d2 = float(np.atleast_1d(tf.deriv(arr(x2)))[0])
                return (d1 >= 0 and d2 <= 0) or (d1 <= 0 and d2 >= 0), dict(params=P, x1=x1, x2=x2, deriv_x1=d1, deriv_x2=d2)
        return None, {}
    return replay


# ----------------------------------------------------------------------------- jobs
def job_class(ctx: Ctx, cfg, scalar=False, inverse_wrap=False):
    rt = _load()
    npproxy.install(rt)
    e = ctx.engine
    P = {n: real(n) for n in cfg["pnames"]}
    x, r = real("x"), real("r")
    x1, x2 = real("x1"), real("x2")
    e.assume(*cfg["assume"](P))
    cls = getattr(rt, cfg["cls"])
    ctx.encoded(cls, rt.BaseTransform.deriv_inverse, rt.BaseTransform.deriv2_inverse, rt.BaseTransform.deriv3_inverse, rt.BaseTransform._convert_inf)
    if inverse_wrap:
        ctx.encoded(rt.InverseRTransform)
    key = f"{cfg['cls']}" + (f":{'k' if 'Knowles' in cfg['cls'] else 'm'}={cfg['fk']}" if cfg["fk"] else "") + (":inverse-wrapped" if inverse_wrap else "")
    ctx.bounds.update(dict(cls=cfg["cls"], integer_exponent=cfg["fk"], x="symbolic interior point", params="symbolic reals under " + cfg["name"] + " precondition"))

    def wrap(v):
        if scalar:
            return v
        a = np.empty(1, dtype=object)
        a[0] = v
        return a

    def un(v):
        return v[0] if isinstance(v, np.ndarray) and v.shape != () else (v.item() if isinstance(v, np.ndarray) else v)

    dom = (lambda v: cfg["dom"](v, P)) if not inverse_wrap else (lambda v: cfg["cod"](v, P))
    cod = (lambda v: cfg["cod"](v, P)) if not inverse_wrap else (lambda v: cfg["dom"](v, P))

    def build():
        tf = cfg["mk"](rt, P)
        return rt.InverseRTransform(tf) if inverse_wrap else tf

    # --- forward: derivatives and inverse(transform(x))
    def fwd():
        tf = build()
        xa = wrap(x)
        return un(tf.transform(xa)), un(tf.deriv(xa)), un(tf.deriv2(xa)), un(tf.deriv3(xa)), un(tf.inverse(tf.transform(xa)))
    e.assumptions_saved = list(e.assumptions)
    e.assume(*dom(x))
    paths = e.run(fwd)
    ctx.paths += len(paths)
    for p in paths:
        if p.exc is not None:
            if ctx.twin(p.pc, "forward:exception-path") == "unsat":
                continue        # the explorer's short feasibility budget left this branch open; the twin query refutes it
            ctx.fail("forward:no-exception", f"{type(p.exc).__name__}: {p.exc}", key=key + ":raises", replay=None)
            continue
        ctx.twin(p.pc, "forward")
        t, d1, d2, d3, inv = p.result
        ex = node_of(t)
        for j, d in enumerate((d1, d2, d3), 1):
            ex = dag.diff(ex, x.n)
            ctx.eq(f"deriv{j} == d^{j} transform/dx^{j}", d, ex, p.pc, replay=make_replay(cfg, "deriv", j, inverse_wrap), key=f"{key}:deriv{j}", slices=_sl(cfg, "x"))
        if cfg["inv_ok"]:
            ctx.eq("inverse(transform(x)) == x", inv, x, p.pc, replay=make_replay(cfg, "inv_fwd", None, inverse_wrap), key=f"{key}:inverse-of-transform")
    # --- backward: transform(inverse(r)) and the inverse-derivative formulas
    e.assumptions = list(e.assumptions_saved)
    e.assume(*cod(r))

    def bwd():
        tf = build()
        ra = wrap(r)
        return un(tf.inverse(ra)), un(tf.transform(tf.inverse(ra))), un(tf.deriv_inverse(ra)), un(tf.deriv2_inverse(ra)), un(tf.deriv3_inverse(ra))
    paths = e.run(bwd)
    ctx.paths += len(paths)
    for p in paths:
        if p.exc is not None:
            if ctx.twin(p.pc, "backward:exception-path") == "unsat":
                continue        # the explorer's short feasibility budget left this branch open; the twin query refutes it
            ctx.fail("backward:no-exception", f"{type(p.exc).__name__}: {p.exc}", key=key + ":raises")
            continue
        ctx.twin(p.pc, "backward")
        xi, back, i1, i2, i3 = p.result
        ctx.eq("transform(inverse(r)) == r", back, r, p.pc, replay=make_replay(cfg, "fwd_inv", None, inverse_wrap), key=f"{key}:transform-of-inverse")
        ex = node_of(xi)
        for j, d in enumerate((i1, i2, i3), 1):
            ex = dag.diff(ex, r.n)
            ctx.eq(f"deriv{j}_inverse == d^{j} inverse/dr^{j}", d, ex, p.pc, replay=make_replay(cfg, "deriv_inv", j, inverse_wrap), key=f"{key}:deriv{j}_inverse",
                   slices=_sl(cfg, "r"))
    # --- monotone: no two interior points where the reported derivative has opposite (or zero) sign
    e.assumptions = list(e.assumptions_saved)
    e.assume(*dom(x1))
    e.assume(*dom(x2))

    def mono():
        tf = build()
        a = np.empty(2, dtype=object)
        a[0], a[1] = x1, x2
        d = tf.deriv(a)
        return d[0], d[1]
    paths = e.run(mono)
    ctx.paths += len(paths)
    for p in paths:
        if p.exc is not None:
            if ctx.twin(p.pc, "monotone:exception-path") == "unsat":
                continue        # the explorer's short feasibility budget left this branch open; the twin query refutes it
            ctx.fail("monotone:no-exception", f"{type(p.exc).__name__}: {p.exc}", key=key + ":raises")
            continue
        da, db = p.result
        ctx.holds("deriv keeps one strict sign on the domain", ((da > 0) & (db > 0)) | ((da < 0) & (db < 0)) if isinstance(da, Sym) else True, p.pc,
                  replay=make_replay(cfg, "monotone", None, inverse_wrap), key=f"{key}:monotone")


def job_endpoints(ctx: Ctx, cfg, trim=True):
    """images of the reference end points: domain ends for the finite-domain maps, 0 and b for the b-scaled maps."""
    rt = _load()
    npproxy.install(rt)
    e = ctx.engine
    P = {n: real(n) for n in cfg["pnames"]}
    e.assume(*cfg["assume"](P))
    if "rmin" in P:
        e.assume(P["rmin"] < K(10) ** 16)
    cls = getattr(rt, cfg["cls"])
    ctx.encoded(cls, rt.BaseTransform._convert_inf)
    key = f"{cfg['cls']}" + (f":{'k' if 'Knowles' in cfg['cls'] else 'm'}={cfg['fk']}" if cfg["fk"] else "") + ":end-points"
    ctx.bounds.update(dict(cls=cfg["cls"], integer_exponent=cfg["fk"], trim_inf=trim))

    def replay(m):
        with unpatched(rt):
            Pf = _fl(m, cfg["pnames"])
            tf = cfg["mk"](rt, Pf)
            if hasattr(tf, "trim_inf"):
                tf.trim_inf = trim
            ref = np.array([0.0, Pf["b"]]) if "b" in Pf and cfg["cls"] != "HyperbolicRTransform" else np.array([float(v) for v in tf.domain])
            img = np.atleast_1d(tf.transform(ref))
            cod = [float(v) for v in tf.codomain]
            exp = [cod[0], cod[1]]
            if cfg["cls"] == "MultiExpRTransform":
                exp = [cod[1], cod[0]]
            if trim and hasattr(tf, "trim_inf"):
                exp = [1e16 if np.isinf(v) and v > 0 else v for v in exp]
            bad = any(not (abs(g - w) <= 1e-9 * max(1.0, abs(w)) or (np.isinf(w) and g == w)) for g, w in zip(img, exp))
            return bad, dict(cls=cfg["cls"], params=Pf, reference_points=ref.tolist(), images=[float(v) for v in img], codomain_ends=exp)

    def body():
        tf = cfg["mk"](rt, P)
        if hasattr(tf, "trim_inf"):
            tf.trim_inf = trim
        if "b" in P and cfg["cls"] != "HyperbolicRTransform":
            a = np.empty(2, dtype=object)
            a[0], a[1] = K(0), P["b"]
        else:
            dom = tf.domain
            if any(isinstance(d, float) and np.isinf(d) for d in dom):
                return None
            a = np.empty(2, dtype=object)
            a[0], a[1] = K(dom[0]), K(dom[1])
        return tf.transform(a), tf.codomain
    for p in e.run(body):
        ctx.paths += 1
        if p.exc is not None:
            ctx.fail("end points:no-exception", f"{type(p.exc).__name__}: {p.exc}", key=key, replay=replay, model=ctx.model_for(p.pc) or {})
            continue
        if p.result is None:
            ctx.note("half-line domain without scale point: no finite reference end point")
            continue
        ctx.twin(p.pc, "ends")
        img, cod = p.result
        want = [cod[0], cod[1]]
        if cfg["cls"] == "MultiExpRTransform":
            want = [cod[1], cod[0]]            # decreasing map: -1 -> +inf, 1 -> rmin
        for i in (0, 1):
            w = want[i]
            if isinstance(w, float) and np.isinf(w):
                target = 1e16 if trim else float("inf")
                ok = (not isinstance(img[i], Sym)) and float(img[i]) == target
                (ctx.ok if ok else ctx.fail)(f"image of reference point {i} is {'1e16 (trimmed infinity)' if trim else '+inf'}", detail=repr(img[i]), key=key, replay=replay,
                                             **({} if ok else dict(model=ctx.model_for(p.pc) or {})))
            else:
                ctx.eq(f"image of reference point {i} == codomain end {i}", img[i], w, p.pc, replay=replay, key=key)


def job_history(ctx: Ctx, cfg, inverse_wrap=False):
    """array calls and call histories: a second call on an array with the same length / end points but different interior
    points returns the values for the points it was given (compared with a fresh object)."""
    rt = _load()
    npproxy.install(rt)
    e = ctx.engine
    P = {n: real(n) for n in cfg["pnames"]}
    e.assume(*cfg["assume"](P))
    xs = [real(f"x{i}") for i in range(3)]
    y1 = real("y1")
    dom = (lambda v: cfg["dom"](v, P)) if not inverse_wrap else (lambda v: cfg["cod"](v, P))
    for v in xs + [y1]:
        e.assume(*dom(v))
    e.assume(xs[0] < xs[1], xs[1] < xs[2], xs[0] < y1, y1 < xs[2])
    if cfg["cls"] == "HyperbolicRTransform":
        e.assume(P["b"] * 2 < 1)
    key = f"{cfg['cls']}" + (":inverse-wrapped" if inverse_wrap else "") + ":call-history"
    ctx.encoded(getattr(rt, cfg["cls"]))
    ctx.bounds.update(dict(cls=cfg["cls"], arrays="length 3, two consecutive calls on one object"))
    meths = ["transform", "deriv", "deriv2", "deriv3", "inverse"]

    def build():
        tf = cfg["mk"](rt, P)
        return rt.InverseRTransform(tf) if inverse_wrap else tf

    def mkarr(vals):
        a = np.empty(len(vals), dtype=object)
        a[:] = vals
        return a

    def replay(m):
        with unpatched(rt):
            Pf = _fl(m, cfg["pnames"])
            A = np.array([float(m.get(f"x{i}", i)) for i in range(3)])
            B = A.copy()
            B[1] = float(m.get("y1", 0.5))
            bad, info = False, dict(cls=cfg["cls"], params=Pf, first=A.tolist(), second=B.tolist())
            for name in meths:
                tf = cfg["mk"](rt, Pf)
                tf = rt.InverseRTransform(tf) if inverse_wrap else tf
                fresh = getattr(cfg["mk"](rt, Pf) if not inverse_wrap else rt.InverseRTransform(cfg["mk"](rt, Pf)), name)(B.copy())
                getattr(tf, name)(A.copy())
                second = getattr(tf, name)(B.copy())
                if not np.allclose(np.asarray(fresh, float), np.asarray(second, float), rtol=1e-12, atol=0, equal_nan=True):
                    bad = True
                    info[name] = dict(after_history=np.asarray(second, float).tolist(), fresh=np.asarray(fresh, float).tolist())
            return bad, info

    def body():
        out = {}
        for name in meths:
            tf = build()
            getattr(tf, name)(mkarr(xs))
            second = getattr(tf, name)(mkarr([xs[0], y1, xs[2]]))
            fresh = getattr(build(), name)(mkarr([xs[0], y1, xs[2]]))
            single = [getattr(build(), name)(mkarr([v]))[0] for v in (xs[0], y1, xs[2])]
            out[name] = (second, fresh, single)
        return out
    for p in e.run(body):
        ctx.paths += 1
        if p.exc is not None:
            ctx.fail("history:no-exception", f"{type(p.exc).__name__}: {p.exc}", key=key + ":raises", replay=replay, model=ctx.model_for(p.pc) or {})
            continue
        for name, (second, fresh, single) in p.result.items():
            for i in range(3):
                ctx.eq(f"{name}: second call [{i}] == fresh object on the same array", second[i], fresh[i], p.pc, replay=replay, key=key)
                ctx.eq(f"{name}: array call [{i}] == length-1 call on that point", fresh[i], single[i], p.pc, replay=replay, key=key + ":array-vs-scalar")


def _sl(cfg, v):
    if not cfg.get("slices"):
        return None
    return dict(cfg["slices"])


def job_ground_params(ctx: Ctx):
    """float code, parameters outside the symbolic bound (non-integer and large exponents, wide parameter ranges), every class and its inverse wrapper:
    round trips and every derivative method vs central differences of the next-lower method at random interior points.  Ground enumeration."""
    rt = _load()
    import warnings
    warnings.simplefilter("ignore")
    ctx.encoded(rt.BaseTransform.deriv_inverse, rt.BaseTransform.deriv2_inverse, rt.BaseTransform.deriv3_inverse, rt.InverseRTransform)
    rng = np.random.default_rng(harness.seed() + 31)
    bad = {}
    with unpatched(rt):
        unit = lambda: rng.uniform(-0.85, 0.85, 5)
        half = lambda b: rng.uniform(0.05 * b, 0.9 * b, 5)
        cases = []
        for k in (1, 2.5, 5, 9):
            cases.append((f"Knowles(k={k})", lambda k=k: rt.KnowlesRTransform(0.05, 1.7, k), unit))
        for m in (1, 1.5, 4, 8):
            cases.append((f"Handy(m={m})", lambda m=m: rt.HandyRTransform(0.05, 1.7, m), unit))
        for m in (1, 2.5, 4):
            cases.append((f"HandyMod(m={m})", lambda m=m: rt.HandyModRTransform(0.05, 40.0, m), unit))
        cases += [("Becke", lambda: rt.BeckeRTransform(1e-3, 2.3), unit), ("MultiExp", lambda: rt.MultiExpRTransform(1e-3, 2.3), unit), ("LinearFinite", lambda: rt.LinearFiniteRTransform(-3.0, 11.0), unit),
                  ("Identity", lambda: rt.IdentityRTransform(), lambda: half(5.0)), ("LinearInfinite", lambda: rt.LinearInfiniteRTransform(0.01, 90.0, b=30), lambda: half(30)),
                  ("Exp", lambda: rt.ExpRTransform(0.01, 90.0, b=30), lambda: half(30)), ("Power", lambda: rt.PowerRTransform(0.01, 90.0, b=30), lambda: half(30)),
                  ("Hyperbolic", lambda: rt.HyperbolicRTransform(0.7, 0.02), lambda: half(30))]
        for name, mk, pts in cases:
            for wrapped in (False, True):
                try:
                    tf0 = mk()
                    x = pts()
                    u0 = x
                    if wrapped:
                        tf, x = rt.InverseRTransform(tf0), tf0.transform(x)
                    else:
                        tf = tf0
                    def fd(f, z, step):
                        """Richardson-extrapolated central difference and an error estimate from the two step sizes"""
                        d1_ = (f(z + step) - f(z - step)) / (2 * step)
                        d2_ = (f(z + step / 2) - f(z - step / 2)) / step
                        rich = (4 * d2_ - d1_) / 3
                        return rich, np.abs(d2_ - d1_) + 1e-9 * np.abs(rich)

                    def rel(method_val, f, z, step, scale):
                        ref, est = fd(f, z, step)
                        return np.max((np.abs(method_val - ref) - 20 * est) / np.maximum(np.abs(ref), scale))      # <= tol means: within 20 x the FD uncertainty + tol
                    h = 1e-4 * np.maximum(1e-2, np.minimum(np.abs(x - x.min() + 0.05), 1.0))
                    if wrapped:     # the variable lives in the image of the wrapped map: stay inside the image of [u - d, u + d]
                        d_ = 1e-4
                        h = 0.5 * np.minimum(np.abs(tf0.transform(u0 + d_) - x), np.abs(x - tf0.transform(u0 - d_)))
                    r = tf.transform(x)
                    errs = dict(inverse_of_transform=np.max(np.abs(tf.inverse(r) - x) / np.maximum(1, np.abs(x))))
                    s1 = 1e-6 * np.max(np.abs(tf.deriv(x)))
                    errs["deriv"] = rel(tf.deriv(x), tf.transform, x, h, s1)
                    errs["deriv2"] = rel(tf.deriv2(x), tf.deriv, x, h, s1)
                    errs["deriv3"] = rel(tf.deriv3(x), tf.deriv2, x, h, s1)
                    # step in r that stays inside the image of [x - h, x + h] (monotone map)
                    hr = 0.5 * np.minimum(np.abs(tf.transform(x + h) - r), np.abs(r - tf.transform(x - h)))
                    s2 = 1e-6 * np.max(np.abs(tf.deriv_inverse(r)))
                    errs["deriv_inverse"] = rel(tf.deriv_inverse(r), tf.inverse, r, hr, s2)
                    errs["deriv2_inverse"] = rel(tf.deriv2_inverse(r), tf.deriv_inverse, r, hr, s2)
                    errs["deriv3_inverse"] = rel(tf.deriv3_inverse(r), tf.deriv2_inverse, r, hr, s2)
                    worst = {k: float(v) for k, v in errs.items() if not v <= 1e-4}
                    if worst:
                        bad[name + ("/InverseRTransform" if wrapped else "")] = worst
                except Exception as ex:
                    bad[name + ("/InverseRTransform" if wrapped else "")] = f"{type(ex).__name__}: {str(ex)[:100]}"
    (ctx.ok if not bad else ctx.fail)("float code: round trips and all derivative methods vs central differences for non-integer / large exponents and wide parameters (12 classes + inverse wrapper)",
                                      detail=str(bad)[:400], key="transforms:float-params", how="ground enumeration (not a solver obligation)", replay=(lambda m: (True, dict(list(bad.items())[:6]))), **({} if not bad else dict(model={})))
    ctx.twins_sat += 1


def jobs(tier):
    js = [Job("ground/float-params", job_ground_params)]
    for cfg in configs(tier):
        js.append(Job(cfg["name"], job_class, cfg))
        if tier == "thorough" or cfg["fk"] in (None, 1):
            js.append(Job(cfg["name"] + "/InverseRTransform", job_class, cfg, inverse_wrap=True))
        js.append(Job(cfg["name"] + "/end-points", job_endpoints, cfg, True))
        if (tier == "thorough" or cfg["fk"] in (None, 2)) and cfg["cls"] in ("BeckeRTransform", "MultiExpRTransform", "KnowlesRTransform", "HandyRTransform", "HandyModRTransform"):
            js.append(Job(cfg["name"] + "/end-points/no-trim", job_endpoints, cfg, False))
        if cfg["fk"] in (None, 2):
            js.append(Job(cfg["name"] + "/history", job_history, cfg))
            js.append(Job(cfg["name"] + "/history/InverseRTransform", job_history, cfg, True))
    only = __import__("os").environ.get("SYMGRID_ONLY")
    if only:
        js = [j for j in js if only in j.name]
    return js


def main():
    t0 = time.time()
    tier = harness.tier()
    res = harness.run_jobs(jobs(tier))
    return harness.finish(
        PROP, res, t0, "DESIGN.md#c03",
        bounds=dict(classes=12, integer_exponents="k,m in 1..4 (quick) / 1..6 (Knowles, Handy), 1..3 / 1..5 (HandyMod)", x="one symbolic interior point per call (arrays of length 1 and 2)",
                    parameters="all reals under the documented precondition; HandyMod additionally rmax-rmin > 2^m-1"),
        outside=["non-integer exponents k, m are not part of the solver claim (sampled by the ground job ground/float-params on the float code)", "derivatives / inverses evaluated exactly on the domain boundary",
                 "IEEE rounding: float arithmetic is read as exact real arithmetic", "HandyMod with rmax-rmin <= 2^m-1 (denominator vanishes inside the domain)"],
        assumptions=["denominators of the executed expressions are non-zero (identities claimed where the implementation's expression is defined)",
                     "exp/log are mutually inverse strictly monotone functions (axioms listed in symgrid/smt.py)"])


if __name__ == "__main__":
    sys.exit(main())
