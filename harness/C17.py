"""C17 - closed-form Coulomb potentials of Gaussian densities (coulomb.py)."""
import sys, time, os, json
import numpy as np
from fractions import Fraction
from symgrid import dag, poly, smt, sym, npproxy, harness
from symgrid.sym import Engine, Sym, real, K, node_of, PI
from symgrid.harness import Job, Ctx
from harness.C03 import unpatched

PROP = "C17"
RSP = K(dag.QS({(1, 1): Fraction(1)}))      # 1/sqrt(pi)


def _mod():
    import grid.coulomb as co
    return co


def _erf(x):
    if isinstance(x, np.ndarray):
        out = np.empty(x.shape, dtype=object)
        for idx in np.ndindex(*x.shape):
            out[idx] = x[idx].erf() if isinstance(x[idx], Sym) else K(x[idx]).erf()
        return out
    return x.erf()


def install():
    co = _mod()
    npproxy.install(co)
    co.erf = _erf
    return co


def arr(vals, shape=None):
    a = np.empty(len(vals), dtype=object)
    a[:] = vals
    return a if shape is None else a.reshape(shape)


def true_potential(kind, r, alpha):
    """independent oracle: spherical Coulomb integral of the DOCUMENTED normalised density by 30-digit quadrature."""
    import mpmath
    mpmath.mp.dps = 30
    r, alpha = mpmath.mpf(r), mpmath.mpf(alpha)
    if kind == "s":
        rho = lambda t: (alpha / mpmath.pi) ** 1.5 * mpmath.exp(-alpha * t * t)
    else:
        rho = lambda t: mpmath.mpf(2) / 3 * alpha ** 2.5 / mpmath.pi ** 1.5 * t * t * mpmath.exp(-alpha * t * t)
    inner = mpmath.quad(lambda t: 4 * mpmath.pi * t * t * rho(t), [0, r]) / r if r > 0 else 0
    outer = mpmath.quad(lambda t: 4 * mpmath.pi * t * rho(t), [r, mpmath.inf])
    v = float(inner + outer)
    mpmath.mp.dps = 15
    return v


def replay_potential(kind, normalized=True):
    def replay(m):
        co = _mod()
        with unpatched(co):
            import scipy.special
            co.erf = scipy.special.erf
            try:
                alpha, r = float(m.get("alpha", 0.25)), float(m.get("r", 2.0))
                f = co.coulomb_gaussian_s if kind == "s" else co.coulomb_gaussian_p
                got = float(f(np.array([r]), alpha, normalized=True)[0])
                want = true_potential(kind, r, alpha)
                return abs(got - want) > 1e-8 * max(1, abs(want)), dict(function=f.__name__, alpha=alpha, r=r, returned=got, potential_of_documented_density=want, ratio=got / want)
            finally:
                co.erf = _erf
    return replay


def replay_continuity(kind):
    def replay(m):
        co = _mod()
        with unpatched(co):
            import scipy.special
            co.erf = scipy.special.erf
            try:
                alpha, r = float(m.get("alpha", 0.25)), float(m.get("r", 2.0))
                f = co.coulomb_gaussian_s if kind == "s" else co.coulomb_gaussian_p
                got, v0 = float(f(np.array([r]), alpha)[0]), float(f(np.array([0.0]), alpha)[0])
                bound = 2 * np.sqrt(alpha / np.pi) * 2 * alpha * r * r
                return abs(got - v0) > bound * (1 + 1e-9) + 1e-13 * abs(v0), dict(function=f.__name__, alpha=alpha, r=r, value=got, value_at_origin=v0, allowed_difference=bound)
            finally:
                co.erf = _erf
    return replay


def job_radial(ctx: Ctx, kind):
    co = install()
    e = ctx.engine
    f = co.coulomb_gaussian_s if kind == "s" else co.coulomb_gaussian_p
    ctx.encoded(f)
    alpha, r = real("alpha"), real("r")
    e.assume(alpha > 0, r >= 0)
    s = alpha.sqrt()
    key = f"coulomb_gaussian_{kind}"
    ctx.bounds.update(dict(function=f.__name__, alpha="symbolic > 0", r="symbolic >= 0 (both sides of the 1e-12 switch)"))
    R = replay_potential(kind)
    ex = (-alpha * r * r).exp()
    if kind == "s":
        rho = s ** 3 * RSP ** 3 * ex
        limit0 = 2 * s * RSP
        factor = (PI / alpha) ** 1.5
    else:
        rho = Fraction(2, 3) * s ** 5 * RSP ** 3 * r * r * ex
        limit0 = Fraction(4, 3) * s * RSP          # value at r = 0 of the potential of the documented density
        factor = Fraction(3, 2) * PI ** 1.5 / alpha ** 2.5

    def body():
        return f(arr([r]), alpha, normalized=True)[0], f(arr([r]), alpha, normalized=False)[0]
    for p in e.run(body):
        ctx.paths += 1
        if p.exc is not None:
            ctx.fail(f"{f.__name__} returns for every alpha > 0, r >= 0", f"{type(p.exc).__name__}: {p.exc}", key=key + ":raises", replay=R, model=ctx.model_for(p.pc) or {})
            continue
        ctx.twin(p.pc)
        V, Vun = p.result
        ctx.eq("unnormalised == documented factor * normalised", Vun, factor * V, p.pc, key=key + ":unnormalised", replay=R)
        big = dag.has_free(node_of(V)) and any(n.op == "fn" and n.args[0] == "erf" for n in dag.walk([node_of(V)]))
        if big:       # branch r >= threshold
            u = r * V
            upp = Sym(dag.diff(dag.diff(node_of(u), r.n), r.n))
            ctx.eq("(r V)'' == -4 pi r rho(r) for the documented density (radial Poisson equation)", upp, -4 * PI * r * rho, p.pc, replay=R, key=key + ":poisson")
            x = s * r
            erfx = x.erf()
            A = [erfx >= 1 - (-(x * x)).exp(), erfx <= 2 * RSP * x, erfx >= 2 * RSP * (x - x ** 3 / 3)]      # stated bounds on erf (assumption)
            ctx.holds("0 <= Q - r V(r) <= exp(-alpha r^2)  (tends to total charge over r)", (r * V <= 1 + (Fraction(4, 3) * s * RSP * r * ex if kind == "p" else 0)) & (1 - erfx <= ex),
                      p.pc, assume=A, key=key + ":far-field", replay=R)
            lim_code = 2 * s * RSP if kind == "s" else Fraction(10, 3) * s * RSP
            ctx.holds("continuity across the small-r switch: |V(r) - V(0 branch)| <= (2 sqrt(alpha)/sqrt(pi)) * 2 alpha r^2 for r >= threshold",
                      (V - lim_code <= 0) & (lim_code - V <= 2 * s * RSP * 2 * alpha * r * r), p.pc, assume=A + [ex <= 1, ex >= 1 - alpha * r * r], key=key + ":continuity", replay=R)
        else:         # branch r < threshold: the constant must be the r -> 0 limit of the potential of the documented density
            ctx.eq("value below the switch == limit r -> 0 of the potential of the documented density", V, limit0, p.pc, replay=R, key=key + ":origin")
            # every path without the erf term must still join the origin value continuously (a path that is neither the origin branch nor the regular
            # formula would show here)
            lim_code = 2 * s * RSP if kind == "s" else Fraction(10, 3) * s * RSP
            ctx.holds("continuity on every path without the erf term: |V(r) - V(origin branch)| <= (2 sqrt(alpha)/sqrt(pi)) * 2 alpha r^2",
                      (V - lim_code <= 0) & (lim_code - V <= 2 * s * RSP * 2 * alpha * r * r), p.pc, assume=[ex <= 1, ex >= 1 - alpha * r * r], key=key + ":continuity", replay=replay_continuity(kind))


def job_superposition(ctx: Ctx, ns, npp):
    co = install()
    e = ctx.engine
    # norm contract: the Euclidean length of a difference vector is a value d >= 1 here (points kept away from the centres);
    # the stub is keyed by the exact components it is given, so the spec below can only find it for (point - centre)
    dist = {}

    def norm_stub(x, axis):
        x = np.asarray(x, dtype=object).reshape(-1, 3)
        out = np.empty(len(x), dtype=object)
        for i, row in enumerate(x):
            k = tuple(node_of(v).id for v in row)
            if k not in dist:
                dist[k] = real(f"d{len(dist)}")
                e.assume(dist[k] >= 1)
            out[i] = dist[k]
        return out
    co.np.norm_stub = norm_stub

    def dist_of(p, c):
        k = tuple(node_of(p[a] - c[a]).id for a in range(3))
        if k not in dist:
            raise KeyError("coulomb_potential never asked for the distance between this point and this centre")
        return dist[k]
    ctx.encoded(co.coulomb_potential)
    pts = arr([real(f"x{i}_{a}") for i in range(2) for a in range(3)], (2, 3))
    cs = arr([real(f"cs{j}_{a}") for j in range(ns) for a in range(3)], (ns, 3))
    cp = arr([real(f"cp{j}_{a}") for j in range(npp) for a in range(3)], (npp, 3)) if npp else None
    ks, kp = arr([real(f"ks{j}") for j in range(ns)]), (arr([real(f"kp{j}") for j in range(npp)]) if npp else None)
    als, alp = arr([real(f"as{j}") for j in range(ns)]), (arr([real(f"ap{j}") for j in range(npp)]) if npp else None)
    for v in list(als) + (list(alp) if npp else []):
        e.assume(v > 0)
    ctx.bounds.update(dict(points=2, s_centres=ns, p_centres=npp, all="symbolic"))
    key = "coulomb_potential:superposition"

    def replay(m, normalized=True):
        with unpatched(co):
            import scipy.special
            co.erf = scipy.special.erf
            try:
                g = lambda name, d: float(m.get(name, d))
                P = np.array([[g(f"x{i}_{a}", 2.0 + i + a) for a in range(3)] for i in range(2)])
                CS = np.array([[g(f"cs{j}_{a}", 0.1 * j) for a in range(3)] for j in range(ns)])
                KS = np.array([g(f"ks{j}", 1.0) for j in range(ns)])
                AS = np.array([g(f"as{j}", 1.0) for j in range(ns)])
                kw = {}
                if npp:
                    kw = dict(centers_p=np.array([[g(f"cp{j}_{a}", -0.1 * j) for a in range(3)] for j in range(npp)]), coeffs_p=np.array([g(f"kp{j}", 1.0) for j in range(npp)]),
                              alphas_p=np.array([g(f"ap{j}", 1.0) for j in range(npp)]))
                got = co.coulomb_potential(P, CS, KS, AS, normalized=normalized, **kw)
                want = np.zeros(2)
                for c, a, ctr in zip(KS, AS, CS):
                    want += c * co.coulomb_gaussian_s(np.linalg.norm(P - ctr, axis=1), a, normalized=normalized)
                if npp:
                    for c, a, ctr in zip(kw["coeffs_p"], kw["alphas_p"], kw["centers_p"]):
                        want += c * co.coulomb_gaussian_p(np.linalg.norm(P - ctr, axis=1), a, normalized=normalized)
                return not np.allclose(got, want, rtol=1e-12), dict(returned=got.tolist(), weighted_sum=want.tolist())
            finally:
                co.erf = _erf
    for normalized in (True, False):
        def body():
            V = co.coulomb_potential(pts, cs, ks, als, cp, kp, alp, normalized=normalized)
            exp = []
            for i in range(2):
                t = K(0)
                for j in range(ns):
                    rr = dist_of(pts[i], cs[j])
                    t = t + ks[j] * co.coulomb_gaussian_s(arr([rr]), als[j], normalized=normalized)[0]
                for j in range(npp):
                    rr = dist_of(pts[i], cp[j])
                    t = t + kp[j] * co.coulomb_gaussian_p(arr([rr]), alp[j], normalized=normalized)[0]
                exp.append(t)
            return V, exp
        for p in e.run(body):
            ctx.paths += 1
            if p.exc is not None:
                ctx.fail("coulomb_potential returns", f"{type(p.exc).__name__}: {p.exc}", key=key + ":raises", replay=replay, model=ctx.model_for(p.pc) or {})
                continue
            V, exp = p.result
            for i in range(2):
                ctx.eq(f"V[{i}] == sum_j c_j V_s(|x - R_j|) + sum_k c_k V_p(|x - R_k|)  (normalized={normalized})", V[i], exp[i], p.pc,
                       replay=(lambda m, nz=normalized: replay(m, nz)), key=key)


def job_table(ctx: Ctx):
    """every shipped per-element parameter set loads as matching arrays of positive exponents (ground walk over all symbols and numbers)."""
    co = _mod()
    from grid.utils import sym2num, num2sym
    ctx.encoded(co.load_atomic_gaussian_params)
    import importlib.resources
    raw = json.load(open(importlib.resources.files("grid.data").joinpath("atomic_gauss_params.json")))
    bad = []
    for sym_, num in sym2num.items():
        for arg in (sym_, num, sym_.lower(), f" {sym_} ", np.int64(num)):
            try:
                c, a = co.load_atomic_gaussian_params(arg)
            except ValueError as ex:
                if sym_ in raw:
                    bad.append((repr(arg), f"rejected: {ex}"))
                continue
            if sym_ not in raw:
                bad.append((repr(arg), "accepted although not in the table"))
            elif c.shape != a.shape or c.ndim != 1 or len(a) == 0 or not np.all(a > 0) or not np.all(np.isfinite(c)) or list(a) != list(raw[sym_]["alphas_s"]) or list(c) != list(raw[sym_]["coeffs_s"]):
                bad.append((repr(arg), "arrays do not match the table / non-positive exponent"))
            if sym_ in raw:      # a caller may edit what it got; the next load must still return the shipped values
                c *= -2.0
                a *= -1.0
    (ctx.ok if not bad else ctx.fail)(f"all {len(sym2num)} element symbols and numbers load matching arrays of positive exponents (5 spellings each)", detail=str(bad[:3]), key="load_atomic_gaussian_params",
                                      replay=(lambda m: (True, dict(first=bad[:3]))), **({} if not bad else dict(model={})))
    for arg, exc in ((0, ValueError), (119, ValueError), ("Xx", ValueError), (1.5, TypeError)):
        try:
            co.load_atomic_gaussian_params(arg)
            ok = False
        except exc:
            ok = True
        except Exception:
            ok = False
        (ctx.ok if ok else ctx.fail)(f"load_atomic_gaussian_params({arg!r}) is rejected with {exc.__name__}", key="load_atomic_gaussian_params", replay=(lambda m: (True, {})), **({} if ok else dict(model={})))


def jobs(tier):
    js = [Job("radial/s", job_radial, "s"), Job("radial/p", job_radial, "p"), Job("superposition/1s", job_superposition, 1, 0), Job("superposition/2s+2p", job_superposition, 2, 2),
          Job("table", job_table)]
    if tier == "thorough":
        js.append(Job("superposition/3s+2p", job_superposition, 3, 2))
    only = os.environ.get("SYMGRID_ONLY")
    return [j for j in js if not only or only in j.name]


def main():
    t0 = time.time()
    res = harness.run_jobs(jobs(harness.tier()))
    return harness.finish(
        PROP, res, t0, "DESIGN.md#c17",
        bounds=dict(radial="all alpha > 0 and all r >= 0 (symbolic), both branches of the 1e-12 switch", superposition="2 points, <= 2 s + 1 p (quick) / 2 p centres, all symbolic, points at distance >= 1 from centres"),
        outside=["IEEE rounding near the switch", "erf itself (SciPy): an atom with derivative 2/sqrt(pi) exp(-x^2) and the stated bounds"],
        assumptions=["superposition jobs: np.linalg.norm(point - centre) is replaced by a distance value d >= 1 keyed by the exact difference vector it was given", "erf'(x) = 2/sqrt(pi) exp(-x^2); for x >= 0: 1 - exp(-x^2) <= erf(x) <= 2x/sqrt(pi), erf(x) >= 2/sqrt(pi)(x - x^3/3)", "exp(-t) >= 1 - t"])


if __name__ == "__main__":
    sys.exit(main())
