"""C20 - library calls never modify the caller's arrays, dictionaries or callback results.

Every input array is created write-protected and snapshotted; option dictionaries/lists are deep-copied; callbacks return fresh arrays,
their own argument, or one cached (write-protected) array.  The entry point is executed with symbolic contents on every path; afterwards
every input and every array a callback handed out must be element-for-element identical to its snapshot, and no path may die with a
"read-only" error.
"""
import sys, time, os, copy, itertools
import numpy as np
from fractions import Fraction
from symgrid import dag, poly, smt, sym, npproxy, harness
from symgrid.sym import Engine, Sym, real, K, node_of
from symgrid.harness import Job, Ctx
from harness.C03 import unpatched

PROP = "C20"


def ro(a):
    a.flags.writeable = False
    return a


def S(tag, *shape):
    a = np.empty(shape, dtype=object)
    for idx in np.ndindex(*shape):
        a[idx] = real(tag + "_".join(map(str, idx)))
    return a


def snap(x):
    if isinstance(x, np.ndarray):
        if x.dtype == object:
            return ("arr", x.shape, [node_of(v).id if isinstance(v, (Sym, int, float, Fraction, np.integer, np.floating)) else id(v) for v in x.ravel()])
        return ("num", x.shape, x.copy())
    if isinstance(x, dict):
        return ("dict", {k: snap(v) for k, v in x.items()})
    if isinstance(x, (list, tuple)):
        return ("seq", [snap(v) for v in x])
    return ("val", repr(x))


def same(a, b):
    if a[0] != b[0]:
        return False
    if a[0] == "num":
        return a[1] == b[1] and a[2].dtype == b[2].dtype and np.array_equal(a[2], b[2], equal_nan=a[2].dtype.kind in "fc")
    if a[0] == "seq":
        return len(a[1]) == len(b[1]) and all(same(x, y) for x, y in zip(a[1], b[1]))
    if a[0] == "dict":
        return a[1].keys() == b[1].keys() and all(same(a[1][k], b[1][k]) for k in a[1])
    return a == b


class Cached:
    """callback helper: hands out arrays in one of three aliasing modes and remembers what it handed out."""
    def __init__(self, mode, make):
        self.mode, self.make, self.cache, self.handed = mode, make, None, []

    def __call__(self, x, *rest):
        if self.mode == "arg":
            out = x
        elif self.mode == "cached":
            if self.cache is None:
                self.cache = ro(self.make(x, *rest))
            out = self.cache
        else:
            out = self.make(x, *rest)
        if isinstance(out, np.ndarray):
            self.handed.append((out, snap(out)))
        return out


# ----------------------------------------------------------------------------- entry points
def entries(tier):
    """yield (name, modules-to-proxy, setup) ; setup(mods) -> dict(inputs=..., call=..., callbacks=[...], assume=[...])"""
    import grid.rtransform as rt, grid.basegrid as bg, grid.cubic as cu, grid.periodicgrid as pg, grid.ngrid as ng, grid.ode as ode, grid.becke as bk

    # --- transforms
    from harness import C03
    for cfg in C03.configs("quick"):
        if cfg["fk"] not in (None, 2):
            continue
        for meth in ("transform", "inverse", "deriv", "deriv2", "deriv3", "deriv_inverse", "deriv2_inverse", "deriv3_inverse"):
            def setup(cfg=cfg, meth=meth):
                P = {n: real(n) for n in cfg["pnames"]}
                x = ro(S("x", 2))
                dom = cfg["cod"] if "inverse" in meth else cfg["dom"]
                assume = list(cfg["assume"](P)) + [c for v in x for c in dom(v, P)]
                if cfg["cls"] == "HyperbolicRTransform":
                    assume.append(P["b"] < K(Fraction(1, 2)))
                return dict(inputs=dict(x=x), call=lambda: getattr(cfg["mk"](rt, P), meth)(x), assume=assume)
            yield f"rtransform/{cfg['name']}.{meth}", [rt], setup
    # --- transform_1d_grid
    for cls in ("BeckeRTransform", "MultiExpRTransform", "LinearFiniteRTransform"):
        def setup(cls=cls):
            pts, w = ro(S("p", 2)), ro(S("w", 2))
            a, b = real("rmin"), real("R")
            return dict(inputs=dict(points=pts, weights=w), call=lambda: getattr(rt, cls)(a, b).transform_1d_grid(bg.OneDGrid(pts, w, (-1, 1))),
                        assume=[a >= 0, b > a, pts[0] > -1, pts[0] < pts[1], pts[1] < 1])
        yield f"transform_1d_grid/{cls}", [rt, bg], setup

    # --- Grid methods
    def grid_setup(what):
        pts, w = ro(S("p", 3, 2)), ro(S("w", 3))
        g = bg.Grid(pts, w)
        f1, f2 = ro(S("f", 3)), ro(S("g", 3))
        ctr = ro(S("c", 2, 2))
        idx = ro(np.array([2, 0]))
        mask = ro(np.array([True, False, True]))
        calls = dict(integrate=lambda: g.integrate(f1, f2), integrate_same_twice=lambda: g.integrate(f1, f1), moments_cartesian=lambda: g.moments(2, ctr, f1, "cartesian"),
                     moments_radial=lambda: g.moments(2, ctr, f1, "radial"), getitem_array=lambda: g[idx], getitem_mask=lambda: g[mask], getitem_slice=lambda: g[0:2],
                     size=lambda: g.size)
        return dict(inputs=dict(points=pts, weights=w, f1=f1, f2=f2, centers=ctr, index=idx, mask=mask), call=calls[what], assume=[])
    for what in ("integrate", "integrate_same_twice", "moments_cartesian", "moments_radial", "getitem_array", "getitem_mask", "getitem_slice"):
        yield f"Grid.{what}", [bg], (lambda what=what: grid_setup(what))

    def local_setup():
        from harness.C10 import StubTree
        bg.cKDTree = StubTree
        pts, w = ro(S("p", 2, 2)), ro(S("w", 2))
        c = ro(S("c", 2))
        g = bg.Grid(pts, w)
        r = real("r")
        return dict(inputs=dict(points=pts, weights=w, center=c), call=lambda: g.get_localgrid(c, r), assume=[r >= 0])
    yield "Grid.get_localgrid", [bg], local_setup

    # --- PeriodicGrid (wrap copies the points)
    def periodic_setup(wrap):
        from harness.C10 import StubTree
        pg.cKDTree = bg.cKDTree = StubTree
        pts, w = ro(S("p", 2)), ro(S("w", 2))
        rv = ro(np.array([1.0]))
        c, r = real("c"), real("r")
        def call():
            g = pg.PeriodicGrid(pts, w, rv, wrap=wrap)
            return g.get_localgrid(c, r)
        return dict(inputs=dict(points=pts, weights=w, realvecs=rv), call=call,
                    assume=[r >= 0, r <= K(Fraction(1, 2)), c >= 0, c <= 1, pts[0] >= K(Fraction(-1, 2)), pts[0] <= K(Fraction(3, 2)), pts[1] >= K(Fraction(-1, 2)), pts[1] <= K(Fraction(3, 2))])
    for wrap in (False, True):
        yield f"PeriodicGrid(wrap={wrap}).get_localgrid", [pg, bg], (lambda wrap=wrap: periodic_setup(wrap))

    # --- rectilinear grids
    def uniform_setup(what):
        origin, axes = ro(S("o", 3)), ro(S("a", 3, 3))
        shape = ro(np.array([2, 2, 2]))
        Z, X = ro(S("Z", 2)), ro(S("X", 2, 3))
        sp = real("spacing")
        pt = ro(S("q", 3))
        if what == "init":
            return dict(inputs=dict(origin=origin, axes=axes, shape=shape), call=lambda: cu.UniformGrid(origin, axes, shape, weight="Rectangle"), assume=[])
        if what == "from_molecule":
            assume = [sp > 0, Z[0] >= 1, Z[1] >= 1] + [c for i in range(2) for a in range(3) for c in (X[i, a] >= 0, X[i, a] <= sp)]
            return dict(inputs=dict(atcorenums=Z, atcoords=X), call=lambda: cu.UniformGrid.from_molecule(Z, X, spacing=sp, extension=sp, rotate=False), assume=assume)
        if what == "closest_point":
            dax = np.empty((3, 3), dtype=object)
            hs = [real(f"h{i}") for i in range(3)]
            for i in range(3):
                for j in range(3):
                    dax[i, j] = hs[i] if i == j else K(0)
            g = object.__new__(cu.UniformGrid)
            g._shape, g._axes, g._origin = (2, 3, 2), ro(dax), origin
            assume = [h > 0 for h in hs] + [c for a in range(3) for c in (pt[a] >= origin[a], pt[a] <= origin[a] + hs[a])]
            return dict(inputs=dict(point=pt, axes=dax, origin=origin), call=lambda: g.closest_point(pt), assume=assume)
    for what in ("init", "from_molecule", "closest_point"):
        yield f"UniformGrid.{what}", [cu, bg], (lambda what=what: uniform_setup(what))

    def tensor_setup():
        gs = [bg.OneDGrid(ro(S(f"x{t}", 2)), ro(S(f"w{t}", 2))) for t in range(3)]
        return dict(inputs={f"x{t}": gs[t].points for t in range(3)} | {f"w{t}": gs[t].weights for t in range(3)}, call=lambda: cu.Tensor1DGrids(*gs), assume=[])
    yield "Tensor1DGrids", [cu, bg], tensor_setup

    # --- multi-domain integration with aliasing callbacks
    for mode, vec in itertools.product(("fresh", "arg", "cached"), (True, False)):
        def setup(mode=mode, vec=vec):
            g1 = bg.Grid(ro(S("p", 2)), ro(S("w", 2)))
            g2 = bg.Grid(ro(S("q", 2)), ro(S("v", 2)))
            if vec:
                cb = Cached(mode, lambda x, y: np.array([Sym(dag.uf("F", [node_of(x), node_of(yy)])) for yy in y], dtype=object))
                f = lambda x, y: cb(y, x) if mode == "arg" else cb(x, y)
            else:
                cb = Cached("fresh", lambda x, y: None)
                f = lambda x, y: Sym(dag.uf("F", [node_of(x), node_of(y)]))
            mg = ng.MultiDomainGrid([g1, g2])
            return dict(inputs=dict(p=g1.points, w=g1.weights, q=g2.points, v=g2.weights), call=lambda: mg.integrate(f, non_vectorized=not vec, integration_chunk_size=3), callbacks=[cb], assume=[])
        yield f"MultiDomainGrid.integrate/{mode}/{'vectorised' if vec else 'pointwise'}", [ng, bg], setup

    # --- ODE helpers
    for mode, lead, zero_lower in itertools.product(("fresh", "arg", "cached"), ("one", "sym"), (False, True)):
        def setup(mode=mode, lead=lead, zero_lower=zero_lower):
            y = ro(S("y", 2, 3))
            x = ro(S("x", 3))
            fx = Cached(mode, lambda xx: np.array([Sym(dag.uf("f", [node_of(v)])) for v in xx], dtype=object))
            a2 = real("a2")
            coeffs = [0 if zero_lower else (lambda xx: xx * 1), 0 if zero_lower else 2, 1 if lead == "one" else a2]

            def call():
                cm = ode._evaluate_coeffs_on_points(x, coeffs)
                return ode._rearrange_to_explicit_ode(y, cm, fx(x))
            return dict(inputs=dict(y=y, x=x, coeffs=coeffs), call=call, callbacks=[fx], assume=[a2 > 1])
        yield f"ode._rearrange_to_explicit_ode/{mode}/lead={lead}/lower={'zero' if zero_lower else 'nonzero'}", [ode], setup

    for driver, mode, with_tf in itertools.product(("bvp", "ivp"), ("fresh", "arg", "cached"), (False, True)):
        def setup(driver=driver, mode=mode, with_tf=with_tf):
            captured = {}

            class Res:
                status = 0
                sol = staticmethod(lambda t: t)

            def fake_bvp(func, bc, mesh, y=None, **kw):
                captured["func"], captured["mesh"] = func, mesh
                return Res()

            def fake_ivp(func, span, y0=None, **kw):
                captured["func"], captured["mesh"] = func, span
                return Res()
            ode.solve_bvp, ode.solve_ivp = fake_bvp, fake_ivp
            x = ro(S("x", 3))
            fx = Cached(mode, lambda xx: np.array([Sym(dag.uf("f", [node_of(v)])) for v in np.atleast_1d(xx)], dtype=object))
            a2 = real("a2")
            coeffs = [0, 0, a2]
            bd = [(0, 0, real("ya")), (1, 0, real("yb"))]
            y0 = [real("y0"), real("y1")]
            tf = rt.BeckeRTransform(real("rmin"), real("R")) if with_tf else None
            yy = ro(S("Y", 2, 3))
            guess = ro(S("G", 2, 3))

            def call():
                if driver == "bvp":
                    ode.solve_ode_bvp(x, fx, coeffs, bd, transform=tf, initial_guess_y=guess)
                    return captured["func"](captured["mesh"], yy)
                ode.solve_ode_ivp((x[0], x[2]), fx, coeffs, y0, transform=None)
                return captured["func"](x[1], ro(S("Y", 2, 1)))
            assume = [a2 > 1, x[0] > -1, x[0] < x[1], x[1] < x[2], x[2] < 1, real("rmin") >= 0, real("R") > 0]
            return dict(inputs=dict(x=x, coeffs=coeffs, bd_cond=bd, y0=y0, Y=yy, guess=guess), call=call, callbacks=[fx], assume=assume)
        if driver == "ivp" and with_tf:
            continue
        yield f"ode.solve_ode_{driver}.func/{mode}/{'transform' if with_tf else 'plain'}", [ode, rt], setup

    # --- Becke weights
    def becke_setup(route, natom=2):
        pts = ro(S("p", natom, 3))
        at = ro(S("A", natom, 3))
        nums = ro(np.array([1, 8, 6, 7, 1][:natom]))
        ind = ro(np.arange(natom + 1))
        b = bk.BeckeWeights(order=1)
        calls = dict(call=lambda: b(pts, at, nums, ind), generate=lambda: b.generate_weights(pts, at, nums, pt_ind=ind), atom=lambda: b.compute_atom_weight(pts, at, nums, 0),
                     all=lambda: b.compute_weights(pts, at, nums, pt_ind=ind))
        return dict(inputs=dict(points=pts, atcoords=at, atnums=nums, indices=ind), call=calls[route], assume=[])
    for route in ("call", "generate", "atom", "all"):
        yield f"BeckeWeights.{route}", [bk], (lambda route=route: becke_setup(route))
    # four atoms: 10*N // M**2 < N, so __call__ walks more than one chunk of points
    yield "BeckeWeights.call/4atoms-chunked", [bk], (lambda: becke_setup("call", 4))


# ----------------------------------------------------------------------------- concrete entry points (Poisson option dictionaries)
def poisson_entries():
    import grid.poisson as po
    from grid.atomgrid import AtomGrid
    from grid.basegrid import OneDGrid
    from grid.rtransform import BeckeRTransform, InverseRTransform
    import warnings
    warnings.simplefilter("ignore")

    def run(which, params):
        rg = OneDGrid(np.array([0.3, 0.9, 1.7, 2.8]), np.ones(4), (0, np.inf))
        ag = AtomGrid(rg, degrees=[3])
        fv = ro(np.exp(-np.sum(ag.points ** 2, axis=1)))
        tf = InverseRTransform(BeckeRTransform(0.0, 1.0))
        saved = (po.solve_ode_bvp, po.solve_ode_ivp)
        po.solve_ode_bvp = lambda *a, **k: (lambda pts: np.zeros((1, len(np.atleast_1d(pts)))) if not k.get("no_derivatives", True) else np.zeros(len(np.atleast_1d(pts))))
        po.solve_ode_ivp = lambda *a, **k: (lambda pts: np.zeros((2, len(np.atleast_1d(pts)))))
        try:
            before = copy.deepcopy(params)
            fsnap = fv.copy()
            if which == "bvp":
                po.solve_poisson_bvp(ag, fv, tf, ode_params=params)
            else:
                po.solve_poisson_ivp(ag, fv, tf, ode_params=params)
            return before == params and np.array_equal(fsnap, fv), dict(which=which, ode_params_before=before, ode_params_after=params)
        finally:
            po.solve_ode_bvp, po.solve_ode_ivp = saved
    for which in ("bvp", "ivp"):
        full = {"tol": 1e-4, "max_nodes": 100, "no_derivatives": True} if which == "bvp" else {"method": "RK45", "rtol": 1e-4, "atol": 1e-4}
        for label, params in (("empty", {}), ("partial", dict(list(full.items())[:1])), ("partial2", dict(list(full.items())[1:2])), ("full", dict(full))):
            yield f"poisson.solve_poisson_{which}/ode_params={label}", (lambda which=which, params=params: run(which, dict(params)))


# ----------------------------------------------------------------------------- concrete battery: the float code end to end, real SciPy
def concrete_entries():
    """name -> thunk returning (inputs, call, callbacks).  The real float code with the real SciPy drivers; every array/list/dict argument
    is write-protected / deep-copied and compared bit for bit afterwards.  One concrete path each: the complement of the symbolic entries
    for code the engine cannot execute (constructors on shipped data, splines, integrators)."""
    import warnings
    warnings.simplefilter("ignore")
    from grid.atomgrid import AtomGrid
    from grid.molgrid import MolGrid
    from grid.basegrid import OneDGrid, Grid
    from grid.onedgrid import GaussLegendre, UniformInteger
    from grid.rtransform import BeckeRTransform, InverseRTransform, LinearFiniteRTransform, PowerRTransform
    from grid.becke import BeckeWeights
    import grid.utils as ut, grid.coulomb as co, grid.poisson as po, grid.ode as ode, grid.cubic as cu

    def rgrid(n=6):
        return BeckeRTransform(0.0, 1.5).transform_1d_grid(GaussLegendre(n))

    def atom(**kw):
        return AtomGrid(rgrid(), degrees=[3, 5, 5, 7, 5, 3], **kw)

    def ent_atom(what):
        rg = rgrid()
        degs, sizes = [3, 5, 5, 7, 5, 3], [6, 14, 14, 26, 14, 6]
        ctr = ro(np.array([0.1, -0.2, 0.3]))
        rs, ds = ro(np.array([0.5, 1.0, 1.5])), ro(np.array([3, 5, 7, 3]))
        if what == "init/degrees":
            inp = dict(degrees=degs, center=ctr, rpoints=ro(rg.points), rweights=ro(rg.weights))
            return inp, (lambda: AtomGrid(OneDGrid(inp["rpoints"], inp["rweights"], (0, np.inf)), degrees=degs, center=ctr)), []
        if what == "init/degrees-array":
            # per-shell degrees as a write-protected array with values that are not supported degrees (4, 6 resolve to 5, 7)
            da = ro(np.array([3, 4, 5, 6, 5, 3]))
            dl = [3, 4, 5, 6, 5, 3]
            inp = dict(degrees_array=da, degrees_list=dl)
            return inp, (lambda: (AtomGrid(rg, degrees=da), AtomGrid(rg, degrees=dl, rotate=3))), []
        if what == "init/sizes":
            inp = dict(sizes=sizes, center=ctr)
            return inp, (lambda: AtomGrid(rg, sizes=sizes, center=ctr, rotate=7)), []
        if what == "from_pruned":
            inp = dict(r_sectors=rs, d_sectors=ds, center=ctr)
            return inp, (lambda: AtomGrid.from_pruned(rg, 1.0, r_sectors=rs, d_sectors=ds, center=ctr)), []
        if what == "from_pruned/lists":
            rl, dl = [0.5, 1.0, 1.5], [3, 5, 7, 3]
            inp = dict(r_sectors=rl, d_sectors=dl)
            return inp, (lambda: AtomGrid.from_pruned(rg, 1.0, r_sectors=rl, d_sectors=dl)), []
        if what == "from_pruned/sizes":
            sl = ro(np.array([6, 14, 26, 6]))
            inp = dict(r_sectors=rs, s_sectors=sl)
            return inp, (lambda: AtomGrid.from_pruned(rg, 1.0, r_sectors=rs, s_sectors=sl)), []
        if what == "from_preset":
            inp = dict(center=ctr)
            return inp, (lambda: AtomGrid.from_preset(atnum=8, preset="coarse", rgrid=rg, center=ctr)), []
        if what.endswith("/r0"):
            # a radial grid with a node at the origin: the r = 0 shells take a separate branch in the angular integration
            rg0 = OneDGrid(np.concatenate(([0.0], rg.points[1:])), rg.weights, (0, np.inf))
            ag0 = AtomGrid(rg0, degrees=degs, center=np.array([0.1, -0.2, 0.3]))
            fv0 = ro(np.exp(-np.sum((ag0.points - ag0.center) ** 2, axis=1)) * (1 + ag0.points[:, 0]))
            fv2 = ro(np.vstack([np.asarray(fv0), 2 * np.asarray(fv0)]))
            inp = dict(func_vals=fv0, func_vals_2d=fv2)
            calls0 = {"integrate_angular_coordinates/r0": lambda: (ag0.integrate_angular_coordinates(fv0), ag0.integrate_angular_coordinates(fv2)), "spherical_average/r0": lambda: ag0.spherical_average(fv0)(np.array([0.0, 0.4])),
                      "radial_component_splines/r0": lambda: ag0.radial_component_splines(fv0), "interpolate/r0": lambda: ag0.interpolate(fv0)(np.array([[0.1, -0.2, 0.3], [0.4, 0.0, 0.1]]))}
            return inp, calls0[what], []
        ag = AtomGrid(rg, degrees=degs, center=np.array([0.1, -0.2, 0.3]))
        fv = ro(np.exp(-np.sum((ag.points - ag.center) ** 2, axis=1)) * (1 + ag.points[:, 0]))
        q = ro(np.array([[0.3, 0.1, 0.2], [0.1, -0.2, 0.3], [1.0, 1.0, -1.0]]))
        inp = dict(func_vals=fv, points=q, center=ctr)
        calls = {"integrate": lambda: ag.integrate(fv, fv), "integrate_angular_coordinates": lambda: ag.integrate_angular_coordinates(fv),
                 "spherical_average": lambda: ag.spherical_average(fv)(np.array([0.2, 0.7])), "radial_component_splines": lambda: ag.radial_component_splines(fv),
                 "interpolate": lambda: [ag.interpolate(fv)(q, deriv=d) for d in (0, 1)] + [ag.interpolate(fv)(q, deriv=1, deriv_spherical=True), ag.interpolate(fv)(q, deriv=1, only_radial_deriv=True)],
                 "convert_cartesian_to_spherical": lambda: (ag.convert_cartesian_to_spherical(q, ctr), ag.convert_cartesian_to_spherical(q), ag.convert_cartesian_to_spherical()),
                 "get_shell_grid": lambda: [ag.get_shell_grid(i, r_sq=b) for i in (0, 3) for b in (True, False)], "moments": lambda: ag.moments(2, q[:2], fv, "pure"),
                 "get_localgrid": lambda: ag.get_localgrid(ctr, 0.8)}
        return inp, calls[what], []

    def mol_parts():
        atnums = ro(np.array([8, 1, 1]))
        atcoords = ro(np.array([[0.0, 0.0, 0.2], [0.0, 1.4, -0.9], [0.0, -1.4, -0.9]]))
        return atnums, atcoords

    def ent_mol(what):
        atnums, atcoords = mol_parts()
        rg = rgrid(5)
        if what in ("from_size", "from_pruned", "from_preset", "from_preset/list"):
            inp = dict(atnums=atnums, atcoords=atcoords)
            if what == "from_size":
                return inp, (lambda: MolGrid.from_size(atnums, atcoords, 14, rg, BeckeWeights(), store=True)), []
            if what == "from_pruned":
                rs = [ro(np.array([0.5, 1.0])), ro(np.array([0.4])), ro(np.array([0.4]))]
                ds = [ro(np.array([3, 5, 3])), ro(np.array([3, 5])), ro(np.array([3, 5]))]
                rad = ro(np.array([1.0, 0.6, 0.6]))
                inp.update(r_sectors=rs, d_sectors=ds, radius=rad)
                return inp, (lambda: MolGrid.from_pruned(atnums, atcoords, rad, rs, ds, rgrid=rg, aim_weights=BeckeWeights(), store=True)), []
            if what == "from_preset/list":
                rgs = [rg, rg, rg]
                inp.update(rgrids=rgs)
                return inp, (lambda: MolGrid.from_preset(atnums, atcoords, "coarse", rgs, BeckeWeights(), store=True)), []
            return inp, (lambda: MolGrid.from_preset(atnums, atcoords, "coarse", rg, BeckeWeights(), store=True)), []
        ags = [AtomGrid(rg, degrees=[5], center=c) for c in np.array(atcoords)]
        if what in ("init/callable", "init/array", "init/hirshfeld"):
            n = sum(a.size for a in ags)
            aim = ro(np.linspace(0.2, 1.0, n))
            inp = dict(atnums=atnums, atgrids=ags, aim_weights=aim, atom_points=[ro(a.points.copy()) for a in ags])
            from grid.hirshfeld import HirshfeldWeights
            w = dict([("init/callable", BeckeWeights(order=3)), ("init/array", aim), ("init/hirshfeld", HirshfeldWeights())])[what]
            def call():
                mg = MolGrid(atnums, ags, w, store=True)
                return [np.array_equal(a.points, p) for a, p in zip(ags, inp["atom_points"])]
            return inp, call, []
        mg = MolGrid(atnums, ags, BeckeWeights(), store=True)
        fv = ro(np.exp(-np.sum(mg.points ** 2, axis=1)))
        q = ro(np.array([[0.3, 0.1, 0.2], [0.0, 0.0, 0.2], [1.0, 1.0, -1.0]]))
        inp = dict(func_vals=fv, points=q)
        calls = {"integrate": lambda: mg.integrate(fv), "interpolate": lambda: [mg.interpolate(fv)(q, deriv=d) for d in (0, 1)], "get_atomic_grid": lambda: [mg.get_atomic_grid(i) for i in range(3)],
                 "getitem": lambda: [mg[i] for i in range(3)], "get_localgrid": lambda: mg.get_localgrid(q[0], 0.9),
                 "dipole": lambda: ut.dipole_moment_of_molecule(mg, fv, atcoords, atnums), "moments": lambda: mg.moments(1, q[:1], fv, "cartesian")}
        inp.update(atcoords=atcoords, atnums=atnums)
        return inp, calls[what], []

    def ent_poisson(what):
        atnums, atcoords = mol_parts()
        tf = InverseRTransform(BeckeRTransform(1e-5, 1.5))
        rg = BeckeRTransform(1e-5, 1.5).transform_1d_grid(GaussLegendre(30))
        if what.startswith("atom"):
            g = AtomGrid(rg, degrees=[5])
            an, ac = ro(np.array([8])), ro(np.zeros((1, 3)))
        else:
            g = MolGrid.from_size(atnums, atcoords, 26, rg, BeckeWeights(), store=True)
            an, ac = atnums, atcoords
        fv = ro(np.exp(-np.sum(g.points ** 2, axis=1)))
        q = ro(np.array([[0.3, 0.1, 0.2], [1.0, 1.0, -1.0]]))
        opts = dict(tol=1e-2, max_nodes=20000)
        ipar = dict(rtol=1e-4, atol=1e-4)
        alphas = ro(np.array([0.5, 2.0, 8.0]))
        inp = dict(func_vals=fv, points=q, ode_params=opts, ivp_params=ipar, atnums=an, atcoords=ac, alphas=alphas)
        kind = what.split("/")[1]
        calls = {"bvp": lambda: po.solve_poisson_bvp(g, fv, tf, include_origin=True, remove_large_pts=10.0, ode_params=opts)(q), "bvp/remove_large_pts": lambda: po.solve_poisson_bvp(g, fv, tf, remove_large_pts=3.0, include_origin=False)(q),
                 "ivp": lambda: po.solve_poisson_ivp(g, fv, tf, r_interval=(3.0, 1e-4), ode_params=ipar)(q), "laplacian": lambda: po.interpolate_laplacian(g, fv)(q),
                 "robust": lambda: __import__("grid.robust_poisson", fromlist=["x"]).solve_poisson_robust(g, fv, tf, an, ac, remove_large_pts=10.0, ode_params=opts)(q),
                 "robust_split2": lambda: __import__("grid.robust_poisson", fromlist=["x"]).solve_poisson_robust(g, fv, tf, an, ac, split2=True, alphas_basis=alphas, remove_large_pts=10.0, ode_params=opts)(q)}
        return inp, calls[what.split("/", 1)[1]], []

    def ent_ode(what, mode):
        x = ro(np.linspace(0.0, 1.0, 12))
        mk = lambda xx: np.sin(xx) + 2.0
        fx = Cached(mode, mk)
        a1 = Cached("fresh", lambda xx: 1.0 + 0.0 * xx)
        coeffs = [a1, 0.5, 1.0]
        cf = ro(np.array([1.0, 0.5, 1.0]))
        bd = [(0, 0, 0.0), (1, 0, 1.0)]
        y0 = ro(np.array([0.0, 1.0]))
        tf = LinearFiniteRTransform(0.0, 1.0)
        inp = dict(x=x, bd_cond=bd, y0=y0, coeffs_array=cf, coeffs_list=[0.5, 0.5, 1.0])
        calls = {"bvp": lambda: ode.solve_ode_bvp(x, fx, coeffs, bd, tol=1e-3)(x), "bvp/array-coeffs": lambda: ode.solve_ode_bvp(x, fx, cf, bd, tol=1e-3, no_derivatives=False)(x),
                 "bvp/transform": lambda: ode.solve_ode_bvp(ro(np.linspace(-0.9, 0.9, 12)), fx, cf, bd, transform=tf, tol=1e-3)(x[1:-1]),
                 "ivp": lambda: ode.solve_ode_ivp((0.0, 1.0), fx, coeffs, y0, rtol=1e-4, atol=1e-4)(x), "ivp/array-coeffs": lambda: ode.solve_ode_ivp((0.0, 1.0), fx, cf, y0, rtol=1e-4, atol=1e-4, no_derivatives=True)(x),
                 "ivp/transform": lambda: ode.solve_ode_ivp((-0.9, 0.9), fx, inp["coeffs_list"], y0, transform=tf, rtol=1e-4, atol=1e-4)(x[1:-1])}
        return inp, calls[what], [fx, a1]

    def ent_misc(what):
        q = ro(np.array([[0.3, 0.1, 0.2], [0.0, 0.0, 0.0], [0.0, 0.0, -1.5], [1.0, 1.0, -1.0]]))
        c = ro(np.array([0.0, 0.0, 0.0]))
        th, ph = ro(np.array([0.3, 1.2, 4.0, -1.0, 2.2])), ro(np.array([0.0, 1.0, np.pi, -0.5, 4.0]))      # incl. polar angles outside [0, pi]
        sph = ro(np.array([[1.0, 0.3, 0.4], [2.0, 1.3, 2.4]]))
        cs, cf, al = ro(np.array([[0.0, 0.0, 0.0], [0.0, 0.0, 1.0]])), ro(np.array([1.0, 0.5])), ro(np.array([0.7, 2.0]))
        r = ro(np.array([0.0, 1e-12, 0.5, 3.0]))
        inp = dict(points=q, center=c, theta=th, phi=ph, sph=sph, centers=cs, coeffs=cf, alphas=al, r=r)
        og = Grid(np.array(q), np.ones(4))
        calls = {"convert_cart_to_sph": lambda: (ut.convert_cart_to_sph(q, c), ut.convert_cart_to_sph(q)), "generate_real_spherical_harmonics": lambda: ut.generate_real_spherical_harmonics(4, th, ph),
                 "generate_real_spherical_harmonics_scipy": lambda: ut.generate_real_spherical_harmonics_scipy(4, th, ph), "generate_derivative_real_spherical_harmonics": lambda: ut.generate_derivative_real_spherical_harmonics(4, th, ph),
                 "solid_harmonics": lambda: ut.solid_harmonics(3, sph), "convert_derivative": lambda: ut.convert_derivative_from_spherical_to_cartesian(1.0, 2.0, 3.0, 1.0, 0.3, 0.4),
                 "coulomb_gaussian_s": lambda: (co.coulomb_gaussian_s(r, 0.8), co.coulomb_gaussian_s(r, 0.8, normalized=False)), "coulomb_gaussian_p": lambda: (co.coulomb_gaussian_p(r, 0.8), co.coulomb_gaussian_p(r, 0.8, False)),
                 "coulomb_potential": lambda: (co.coulomb_potential(q, cs, cf, al, cs, cf, al), co.coulomb_potential(q, cs, cf, al, normalized=False)),
                 "Grid.moments/pure-radial": lambda: og.moments(2, q[:2], r, "pure-radial"), "get_cov_radii": lambda: ut.get_cov_radii(ro(np.array([1, 8])))}
        return inp, calls[what], []

    def ent_cubic(what):
        g1 = [OneDGrid(np.linspace(-1, 1, n), np.full(n, 2.0 / n), (-1, 1)) for n in (5, 6, 7)]
        tg = cu.Tensor1DGrids(*g1)
        fv = ro(np.exp(-np.sum(tg.points ** 2, axis=1)))
        q = ro(np.array([[0.1, 0.2, 0.3], [-0.5, 0.5, 0.0]]))
        ug = cu.UniformGrid(np.array([-1.0, -1.0, -1.0]), np.eye(3) * 0.5, np.array([5, 5, 5]))
        fu = ro(np.exp(-np.sum(ug.points ** 2, axis=1)))
        idx = ro(np.array([1, 2, 3]))
        inp = dict(func_vals=fv, points=q, func_uniform=fu, index=idx)
        calls = {"interpolate": lambda: [tg.interpolate(q, fv), tg.interpolate(q, fv, use_log=True, nu_x=1), tg.interpolate(q, fv, method="linear"), tg.interpolate(q, fv, nu_y=2)],
                 "uniform.interpolate": lambda: ug.interpolate(q, fu, nu_z=1), "integrate": lambda: (tg.integrate(fv), ug.integrate(fu, fu)),
                 "index": lambda: (ug.coordinates_to_index(idx), ug.index_to_coordinates(7), tg.coordinates_to_index(tuple(idx))), "closest_point": lambda: (ug.closest_point(q[0], "closest"), ug.closest_point(q[1], "origin"))}
        return inp, calls[what], []

    for w in ("init/degrees", "init/degrees-array", "init/sizes", "from_pruned", "from_pruned/lists", "from_pruned/sizes", "from_preset", "integrate", "integrate_angular_coordinates", "spherical_average", "radial_component_splines",
              "interpolate", "convert_cartesian_to_spherical", "get_shell_grid", "moments", "get_localgrid", "integrate_angular_coordinates/r0", "spherical_average/r0", "radial_component_splines/r0", "interpolate/r0"):
        yield f"concrete/AtomGrid.{w}", (lambda w=w: ent_atom(w))
    for w in ("from_size", "from_pruned", "from_preset", "from_preset/list", "init/callable", "init/array", "init/hirshfeld", "integrate", "interpolate", "get_atomic_grid", "getitem", "get_localgrid", "dipole", "moments"):
        yield f"concrete/MolGrid.{w}", (lambda w=w: ent_mol(w))
    for g in ("atom", "mol"):
        for w in ("bvp", "bvp/remove_large_pts", "ivp", "laplacian", "robust", "robust_split2"):
            if g == "mol" and w == "ivp":
                continue
            yield f"concrete/poisson[{g}].{w}", (lambda g=g, w=w: ent_poisson(f"{g}/{w}"))
    for w in ("bvp", "bvp/array-coeffs", "bvp/transform", "ivp", "ivp/array-coeffs", "ivp/transform"):
        for mode in ("fresh", "arg"):      # "arg": the right-hand side f(x) = x hands the solver's own mesh array back
            yield f"concrete/ode.solve_ode_{w}/{mode}", (lambda w=w, mode=mode: ent_ode(w, mode))
    for w in ("convert_cart_to_sph", "generate_real_spherical_harmonics", "generate_real_spherical_harmonics_scipy", "generate_derivative_real_spherical_harmonics", "solid_harmonics", "convert_derivative",
              "coulomb_gaussian_s", "coulomb_gaussian_p", "coulomb_potential", "Grid.moments/pure-radial", "get_cov_radii"):
        yield f"concrete/{w}", (lambda w=w: ent_misc(w))
    for w in ("interpolate", "uniform.interpolate", "integrate", "index", "closest_point"):
        yield f"concrete/cubic.{w}", (lambda w=w: ent_cubic(w))


def job_concrete(ctx: Ctx, name):
    thunk = dict(concrete_entries())[name]
    with unpatched():
        inputs, call, callbacks = thunk()
        before = {k: (snap(v), copy.deepcopy(v) if isinstance(v, (list, dict)) else None) for k, v in inputs.items()}
        err = None
        try:
            call()
        except Exception as ex:     # noqa: a documented rejection must still leave the inputs intact
            err = f"{type(ex).__name__}: {str(ex)[:200]}"
        changed = [k for k, v in inputs.items() if not same(before[k][0], snap(v))]
        for cb in callbacks:
            for arr_, s0 in cb.handed:
                if not same(s0, snap(arr_)):
                    changed.append("array returned by the callback")
    key = "mutation:" + name
    if err and ("read-only" in err or "not writeable" in err or "WRITEABLE" in err):
        ctx.fail(f"{name}: writes into a write-protected input or callback result", err, key=key, replay=lambda m: (True, dict(raised=err)), model={})
    elif changed:
        ctx.fail(f"{name}: {', '.join(sorted(set(changed)))} modified by the call", detail=str(sorted(set(changed))), key=key, replay=lambda m: (True, dict(modified=sorted(set(changed)))), model={})
    elif err:
        ctx.fail(f"{name}: the battery call itself failed", err, key=key + ":raises", replay=lambda m: (True, dict(raised=err)), model={})
    else:
        ctx.ok(f"{name}: inputs, option containers and callback results bit-identical after the call", how="concrete run (one path; not a solver obligation)")
    ctx.twins_sat += 1


def job_entry(ctx: Ctx, name):
    ent = {n: (mods, setup) for n, mods, setup in entries(harness.tier())}
    mods, setup = ent[name]
    for m in mods:
        npproxy.install(m)
    e = ctx.engine
    spec = setup()
    for a in spec.get("assume", []):
        e.assume(a)
    inputs = spec["inputs"]
    before = {k: snap(v) for k, v in inputs.items()}
    key = "mutation:" + name.split("/")[0]
    ctx.bounds.update(dict(entry=name, inputs=list(inputs)))

    def replay(m):
        return None, dict(note="symbolic run is the real code on write-protected arrays; the failing path is reported directly")
    paths = e.run(spec["call"])
    ctx.paths += len(paths)
    for p in paths:
        model = ctx.model_for(p.pc) or {}
        if p.exc is not None:
            msg = f"{type(p.exc).__name__}: {str(p.exc)[:140]}"
            if "read-only" in str(p.exc) or "not writeable" in str(p.exc):
                ctx.fail(f"{name}: writes into a write-protected input or callback result", msg, key=key, replay=lambda m: (True, dict(raised=msg)), model=model)
            else:
                # a documented rejection (ValueError etc.) must still leave the inputs intact: checked below
                ctx.note(f"path raises {msg}")
        changed = [k for k, v in inputs.items() if not same(before[k], snap(v))]
        for cb in spec.get("callbacks", []):
            for arr_, s0 in cb.handed:
                if not same(s0, snap(arr_)):
                    changed.append("array returned by the callback")
            cb.handed.clear()
            cb.cache = None
        if changed:
            ctx.fail(f"{name}: {', '.join(sorted(set(changed)))} modified by the call", detail=str(sorted(set(changed))), key=key, replay=lambda m, ch=changed: (True, dict(modified=sorted(set(ch)))), model=model)
            # restore for the next path
        else:
            ctx.ok(f"{name}: inputs and callback results identical after the call (path {len(p.pc)} decisions)", how="path")
    ctx.twins_sat += 1


def job_poisson(ctx: Ctx, name):
    import grid.poisson as po
    ctx.encoded(po._solve_poisson_bvp_atomgrid, po._solve_poisson_ivp_atomgrid)
    fn = dict(poisson_entries())[name]
    ok, info = fn()
    (ctx.ok if ok else ctx.fail)(f"{name}: the caller's option dictionary and function values are unchanged", detail=str(info), key="mutation:poisson.ode_params", replay=lambda m: (True, info),
                                 **({} if ok else dict(model={})))
    ctx.twins_sat += 1


def jobs(tier):
    js = [Job(n, job_entry, n) for n, _, _ in entries(tier)]
    js += [Job(n, job_poisson, n) for n, _ in poisson_entries()]
    js += [Job(n, job_concrete, n) for n, _ in concrete_entries()]
    only = os.environ.get("SYMGRID_ONLY")
    return [j for j in js if not only or only in j.name]


def main():
    t0 = time.time()
    js = jobs(harness.tier())
    res = harness.run_jobs(js)
    return harness.finish(
        PROP, res, t0, "DESIGN.md#c20",
        bounds=dict(entry_points=len(js), aliasing="inputs write-protected; the same array passed twice; callbacks returning fresh arrays, their argument, or one cached write-protected array",
                    contents="symbolic (all paths) except the Poisson option-dictionary entries, which run concretely with the ODE drivers stubbed"),
        outside=["entry points the engine cannot execute symbolically (AtomGrid/MolGrid constructors and methods on shipped data, spline interpolation, the real SciPy ODE drivers, Poisson/robust solvers, utils, Coulomb, cubic) are run once concretely on write-protected inputs (68 'concrete/...' jobs: one path each, not a solver obligation)", "cube file I/O"],
        assumptions=["NumPy enforces flags.writeable=False for object arrays", "k-d tree / ODE drivers stubbed where the entry point needs them"])


if __name__ == "__main__":
    sys.exit(main())
