"""C20 - library calls never modify the caller's arrays, dictionaries or callback results.

Every input array is created write-protected and snapshotted; option dictionaries/lists are deep-copied; callbacks return fresh arrays,
their own argument, or one cached (write-protected) array.  The entry point is executed with symbolic contents on every path; afterwards
every input and every array a callback handed out must be element-for-element identical to its snapshot, and no path may die with a
"read-only" error.
"""
import sys, time, os, copy, itertools
import numpy as np
from fractions import Fraction
from symgrid import dag, poly, smt, sym, npproxy, harness
from symgrid.sym import Engine, Sym, real, K, node_of
from symgrid.harness import Job, Ctx
from harness.C03 import unpatched

PROP = "C20"


def ro(a):
    a.flags.writeable = False
    return a


def S(tag, *shape):
    a = np.empty(shape, dtype=object)
    for idx in np.ndindex(*shape):
        a[idx] = real(tag + "_".join(map(str, idx)))
    return a


def snap(x):
    if isinstance(x, np.ndarray):
        if x.dtype == object:
            return ("arr", x.shape, [node_of(v).id if isinstance(v, (Sym, int, float, Fraction, np.integer, np.floating)) else id(v) for v in x.ravel()])
        return ("num", x.shape, x.copy())
    if isinstance(x, dict):
        return ("dict", {k: snap(v) for k, v in x.items()})
    if isinstance(x, (list, tuple)):
        return ("seq", [snap(v) for v in x])
    return ("val", repr(x))


def same(a, b):
    if a[0] != b[0]:
        return False
    if a[0] == "num":
        return a[1] == b[1] and np.array_equal(a[2], b[2], equal_nan=True)
    return a == b


class Cached:
    """callback helper: hands out arrays in one of three aliasing modes and remembers what it handed out."""
    def __init__(self, mode, make):
        self.mode, self.make, self.cache, self.handed = mode, make, None, []

    def __call__(self, x, *rest):
        if self.mode == "arg":
            out = x
        elif self.mode == "cached":
            if self.cache is None:
                self.cache = ro(self.make(x, *rest))
            out = self.cache
        else:
            out = self.make(x, *rest)
        if isinstance(out, np.ndarray):
            self.handed.append((out, snap(out)))
        return out


# ----------------------------------------------------------------------------- entry points
def entries(tier):
    """yield (name, modules-to-proxy, setup) ; setup(mods) -> dict(inputs=..., call=..., callbacks=[...], assume=[...])"""
    import grid.rtransform as rt, grid.basegrid as bg, grid.cubic as cu, grid.periodicgrid as pg, grid.ngrid as ng, grid.ode as ode, grid.becke as bk

    # --- transforms
    from harness import C03
    for cfg in C03.configs("quick"):
        if cfg["fk"] not in (None, 2):
            continue
        for meth in ("transform", "inverse", "deriv", "deriv2", "deriv3", "deriv_inverse", "deriv2_inverse", "deriv3_inverse"):
            def setup(cfg=cfg, meth=meth):
                P = {n: real(n) for n in cfg["pnames"]}
                x = ro(S("x", 2))
                dom = cfg["cod"] if "inverse" in meth else cfg["dom"]
                assume = list(cfg["assume"](P)) + [c for v in x for c in dom(v, P)]
                if cfg["cls"] == "HyperbolicRTransform":
                    assume.append(P["b"] < K(Fraction(1, 2)))
                return dict(inputs=dict(x=x), call=lambda: getattr(cfg["mk"](rt, P), meth)(x), assume=assume)
            yield f"rtransform/{cfg['name']}.{meth}", [rt], setup
    # --- transform_1d_grid
    for cls in ("BeckeRTransform", "MultiExpRTransform", "LinearFiniteRTransform"):
        def setup(cls=cls):
            pts, w = ro(S("p", 2)), ro(S("w", 2))
            a, b = real("rmin"), real("R")
            return dict(inputs=dict(points=pts, weights=w), call=lambda: getattr(rt, cls)(a, b).transform_1d_grid(bg.OneDGrid(pts, w, (-1, 1))),
                        assume=[a >= 0, b > a, pts[0] > -1, pts[0] < pts[1], pts[1] < 1])
        yield f"transform_1d_grid/{cls}", [rt, bg], setup

    # --- Grid methods
    def grid_setup(what):
        pts, w = ro(S("p", 3, 2)), ro(S("w", 3))
        g = bg.Grid(pts, w)
        f1, f2 = ro(S("f", 3)), ro(S("g", 3))
        ctr = ro(S("c", 2, 2))
        idx = ro(np.array([2, 0]))
        mask = ro(np.array([True, False, True]))
        calls = dict(integrate=lambda: g.integrate(f1, f2), integrate_same_twice=lambda: g.integrate(f1, f1), moments_cartesian=lambda: g.moments(2, ctr, f1, "cartesian"),
                     moments_radial=lambda: g.moments(2, ctr, f1, "radial"), getitem_array=lambda: g[idx], getitem_mask=lambda: g[mask], getitem_slice=lambda: g[0:2],
                     size=lambda: g.size)
        return dict(inputs=dict(points=pts, weights=w, f1=f1, f2=f2, centers=ctr, index=idx, mask=mask), call=calls[what], assume=[])
    for what in ("integrate", "integrate_same_twice", "moments_cartesian", "moments_radial", "getitem_array", "getitem_mask", "getitem_slice"):
        yield f"Grid.{what}", [bg], (lambda what=what: grid_setup(what))

    def local_setup():
        from harness.C10 import StubTree
        bg.cKDTree = StubTree
        pts, w = ro(S("p", 2, 2)), ro(S("w", 2))
        c = ro(S("c", 2))
        g = bg.Grid(pts, w)
        r = real("r")
        return dict(inputs=dict(points=pts, weights=w, center=c), call=lambda: g.get_localgrid(c, r), assume=[r >= 0])
    yield "Grid.get_localgrid", [bg], local_setup

    # --- PeriodicGrid (wrap copies the points)
    def periodic_setup(wrap):
        from harness.C10 import StubTree
        pg.cKDTree = bg.cKDTree = StubTree
        pts, w = ro(S("p", 2)), ro(S("w", 2))
        rv = ro(np.array([1.0]))
        c, r = real("c"), real("r")
        def call():
            g = pg.PeriodicGrid(pts, w, rv, wrap=wrap)
            return g.get_localgrid(c, r)
        return dict(inputs=dict(points=pts, weights=w, realvecs=rv), call=call,
                    assume=[r >= 0, r <= K(Fraction(1, 2)), c >= 0, c <= 1, pts[0] >= K(Fraction(-1, 2)), pts[0] <= K(Fraction(3, 2)), pts[1] >= K(Fraction(-1, 2)), pts[1] <= K(Fraction(3, 2))])
    for wrap in (False, True):
        yield f"PeriodicGrid(wrap={wrap}).get_localgrid", [pg, bg], (lambda wrap=wrap: periodic_setup(wrap))

    # --- rectilinear grids
    def uniform_setup(what):
        origin, axes = ro(S("o", 3)), ro(S("a", 3, 3))
        shape = ro(np.array([2, 2, 2]))
        Z, X = ro(S("Z", 2)), ro(S("X", 2, 3))
        sp = real("spacing")
        pt = ro(S("q", 3))
        if what == "init":
            return dict(inputs=dict(origin=origin, axes=axes, shape=shape), call=lambda: cu.UniformGrid(origin, axes, shape, weight="Rectangle"), assume=[])
        if what == "from_molecule":
            assume = [sp > 0, Z[0] >= 1, Z[1] >= 1] + [c for i in range(2) for a in range(3) for c in (X[i, a] >= 0, X[i, a] <= sp)]
            return dict(inputs=dict(atcorenums=Z, atcoords=X), call=lambda: cu.UniformGrid.from_molecule(Z, X, spacing=sp, extension=sp, rotate=False), assume=assume)
        if what == "closest_point":
            dax = np.empty((3, 3), dtype=object)
            hs = [real(f"h{i}") for i in range(3)]
            for i in range(3):
                for j in range(3):
                    dax[i, j] = hs[i] if i == j else K(0)
            g = object.__new__(cu.UniformGrid)
            g._shape, g._axes, g._origin = (2, 3, 2), ro(dax), origin
            assume = [h > 0 for h in hs] + [c for a in range(3) for c in (pt[a] >= origin[a], pt[a] <= origin[a] + hs[a])]
            return dict(inputs=dict(point=pt, axes=dax, origin=origin), call=lambda: g.closest_point(pt), assume=assume)
    for what in ("init", "from_molecule", "closest_point"):
        yield f"UniformGrid.{what}", [cu, bg], (lambda what=what: uniform_setup(what))

    def tensor_setup():
        gs = [bg.OneDGrid(ro(S(f"x{t}", 2)), ro(S(f"w{t}", 2))) for t in range(3)]
        return dict(inputs={f"x{t}": gs[t].points for t in range(3)} | {f"w{t}": gs[t].weights for t in range(3)}, call=lambda: cu.Tensor1DGrids(*gs), assume=[])
    yield "Tensor1DGrids", [cu, bg], tensor_setup

    # --- multi-domain integration with aliasing callbacks
    for mode, vec in itertools.product(("fresh", "arg", "cached"), (True, False)):
        def setup(mode=mode, vec=vec):
            g1 = bg.Grid(ro(S("p", 2)), ro(S("w", 2)))
            g2 = bg.Grid(ro(S("q", 2)), ro(S("v", 2)))
            if vec:
                cb = Cached(mode, lambda x, y: np.array([Sym(dag.uf("F", [node_of(x), node_of(yy)])) for yy in y], dtype=object))
                f = lambda x, y: cb(y, x) if mode == "arg" else cb(x, y)
            else:
                cb = Cached("fresh", lambda x, y: None)
                f = lambda x, y: Sym(dag.uf("F", [node_of(x), node_of(y)]))
            mg = ng.MultiDomainGrid([g1, g2])
            return dict(inputs=dict(p=g1.points, w=g1.weights, q=g2.points, v=g2.weights), call=lambda: mg.integrate(f, non_vectorized=not vec, integration_chunk_size=3), callbacks=[cb], assume=[])
        yield f"MultiDomainGrid.integrate/{mode}/{'vectorised' if vec else 'pointwise'}", [ng, bg], setup

    # --- ODE helpers
    for mode, lead, zero_lower in itertools.product(("fresh", "arg", "cached"), ("one", "sym"), (False, True)):
        def setup(mode=mode, lead=lead, zero_lower=zero_lower):
            y = ro(S("y", 2, 3))
            x = ro(S("x", 3))
            fx = Cached(mode, lambda xx: np.array([Sym(dag.uf("f", [node_of(v)])) for v in xx], dtype=object))
            a2 = real("a2")
            coeffs = [0 if zero_lower else (lambda xx: xx * 1), 0 if zero_lower else 2, 1 if lead == "one" else a2]

            def call():
                cm = ode._evaluate_coeffs_on_points(x, coeffs)
                return ode._rearrange_to_explicit_ode(y, cm, fx(x))
            return dict(inputs=dict(y=y, x=x, coeffs=coeffs), call=call, callbacks=[fx], assume=[a2 > 1])
        yield f"ode._rearrange_to_explicit_ode/{mode}/lead={lead}/lower={'zero' if zero_lower else 'nonzero'}", [ode], setup

    for driver, mode, with_tf in itertools.product(("bvp", "ivp"), ("fresh", "arg", "cached"), (False, True)):
        def setup(driver=driver, mode=mode, with_tf=with_tf):
            captured = {}

            class Res:
                status = 0
                sol = staticmethod(lambda t: t)

            def fake_bvp(func, bc, mesh, y=None, **kw):
                captured["func"], captured["mesh"] = func, mesh
                return Res()

            def fake_ivp(func, span, y0=None, **kw):
                captured["func"], captured["mesh"] = func, span
                return Res()
            ode.solve_bvp, ode.solve_ivp = fake_bvp, fake_ivp
            x = ro(S("x", 3))
            fx = Cached(mode, lambda xx: np.array([Sym(dag.uf("f", [node_of(v)])) for v in np.atleast_1d(xx)], dtype=object))
            a2 = real("a2")
            coeffs = [0, 0, a2]
            bd = [(0, 0, real("ya")), (1, 0, real("yb"))]
            y0 = [real("y0"), real("y1")]
            tf = rt.BeckeRTransform(real("rmin"), real("R")) if with_tf else None
            yy = ro(S("Y", 2, 3))
            guess = ro(S("G", 2, 3))

            def call():
                if driver == "bvp":
                    ode.solve_ode_bvp(x, fx, coeffs, bd, transform=tf, initial_guess_y=guess)
                    return captured["func"](captured["mesh"], yy)
                ode.solve_ode_ivp((x[0], x[2]), fx, coeffs, y0, transform=None)
                return captured["func"](x[1], ro(S("Y", 2, 1)))
            assume = [a2 > 1, x[0] > -1, x[0] < x[1], x[1] < x[2], x[2] < 1, real("rmin") >= 0, real("R") > 0]
            return dict(inputs=dict(x=x, coeffs=coeffs, bd_cond=bd, y0=y0, Y=yy, guess=guess), call=call, callbacks=[fx], assume=assume)
        if driver == "ivp" and with_tf:
            continue
        yield f"ode.solve_ode_{driver}.func/{mode}/{'transform' if with_tf else 'plain'}", [ode, rt], setup

    # --- Becke weights
    def becke_setup(route, natom=2):
        pts = ro(S("p", natom, 3))
        at = ro(S("A", natom, 3))
        nums = ro(np.array([1, 8, 6, 7, 1][:natom]))
        ind = ro(np.arange(natom + 1))
        b = bk.BeckeWeights(order=1)
        calls = dict(call=lambda: b(pts, at, nums, ind), generate=lambda: b.generate_weights(pts, at, nums, pt_ind=ind), atom=lambda: b.compute_atom_weight(pts, at, nums, 0),
                     all=lambda: b.compute_weights(pts, at, nums, pt_ind=ind))
        return dict(inputs=dict(points=pts, atcoords=at, atnums=nums, indices=ind), call=calls[route], assume=[])
    for route in ("call", "generate", "atom", "all"):
        yield f"BeckeWeights.{route}", [bk], (lambda route=route: becke_setup(route))
    # four atoms: 10*N // M**2 < N, so __call__ walks more than one chunk of points
    yield "BeckeWeights.call/4atoms-chunked", [bk], (lambda: becke_setup("call", 4))


# ----------------------------------------------------------------------------- concrete entry points (Poisson option dictionaries)
def poisson_entries():
    import grid.poisson as po
    from grid.atomgrid import AtomGrid
    from grid.basegrid import OneDGrid
    from grid.rtransform import BeckeRTransform, InverseRTransform
    import warnings
    warnings.simplefilter("ignore")

    def run(which, params):
        rg = OneDGrid(np.array([0.3, 0.9, 1.7, 2.8]), np.ones(4), (0, np.inf))
        ag = AtomGrid(rg, degrees=[3])
        fv = ro(np.exp(-np.sum(ag.points ** 2, axis=1)))
        tf = InverseRTransform(BeckeRTransform(0.0, 1.0))
        saved = (po.solve_ode_bvp, po.solve_ode_ivp)
        po.solve_ode_bvp = lambda *a, **k: (lambda pts: np.zeros((1, len(np.atleast_1d(pts)))) if not k.get("no_derivatives", True) else np.zeros(len(np.atleast_1d(pts))))
        po.solve_ode_ivp = lambda *a, **k: (lambda pts: np.zeros((2, len(np.atleast_1d(pts)))))
        try:
            before = copy.deepcopy(params)
            fsnap = fv.copy()
            if which == "bvp":
                po.solve_poisson_bvp(ag, fv, tf, ode_params=params)
            else:
                po.solve_poisson_ivp(ag, fv, tf, ode_params=params)
            return before == params and np.array_equal(fsnap, fv), dict(which=which, ode_params_before=before, ode_params_after=params)
        finally:
            po.solve_ode_bvp, po.solve_ode_ivp = saved
    for which in ("bvp", "ivp"):
        full = {"tol": 1e-4, "max_nodes": 100, "no_derivatives": True} if which == "bvp" else {"method": "RK45", "rtol": 1e-4, "atol": 1e-4}
        for label, params in (("empty", {}), ("partial", dict(list(full.items())[:1])), ("partial2", dict(list(full.items())[1:2])), ("full", dict(full))):
            yield f"poisson.solve_poisson_{which}/ode_params={label}", (lambda which=which, params=params: run(which, dict(params)))


def job_entry(ctx: Ctx, name):
    ent = {n: (mods, setup) for n, mods, setup in entries(harness.tier())}
    mods, setup = ent[name]
    for m in mods:
        npproxy.install(m)
    e = ctx.engine
    spec = setup()
    for a in spec.get("assume", []):
        e.assume(a)
    inputs = spec["inputs"]
    before = {k: snap(v) for k, v in inputs.items()}
    key = "mutation:" + name.split("/")[0]
    ctx.bounds.update(dict(entry=name, inputs=list(inputs)))

    def replay(m):
        return None, dict(note="symbolic run is the real code on write-protected arrays; the failing path is reported directly")
    paths = e.run(spec["call"])
    ctx.paths += len(paths)
    for p in paths:
        model = ctx.model_for(p.pc) or {}
        if p.exc is not None:
            msg = f"{type(p.exc).__name__}: {str(p.exc)[:140]}"
            if "read-only" in str(p.exc) or "not writeable" in str(p.exc):
                ctx.fail(f"{name}: writes into a write-protected input or callback result", msg, key=key, replay=lambda m: (True, dict(raised=msg)), model=model)
            else:
                # a documented rejection (ValueError etc.) must still leave the inputs intact: checked below
                ctx.note(f"path raises {msg}")
        changed = [k for k, v in inputs.items() if not same(before[k], snap(v))]
        for cb in spec.get("callbacks", []):
            for arr_, s0 in cb.handed:
                if not same(s0, snap(arr_)):
                    changed.append("array returned by the callback")
            cb.handed.clear()
            cb.cache = None
        if changed:
            ctx.fail(f"{name}: {', '.join(sorted(set(changed)))} modified by the call", detail=str(sorted(set(changed))), key=key, replay=lambda m, ch=changed: (True, dict(modified=sorted(set(ch)))), model=model)
            # restore for the next path
        else:
            ctx.ok(f"{name}: inputs and callback results identical after the call (path {len(p.pc)} decisions)", how="path")
    ctx.twins_sat += 1


def job_poisson(ctx: Ctx, name):
    import grid.poisson as po
    ctx.encoded(po._solve_poisson_bvp_atomgrid, po._solve_poisson_ivp_atomgrid)
    fn = dict(poisson_entries())[name]
    ok, info = fn()
    (ctx.ok if ok else ctx.fail)(f"{name}: the caller's option dictionary and function values are unchanged", detail=str(info), key="mutation:poisson.ode_params", replay=lambda m: (True, info),
                                 **({} if ok else dict(model={})))
    ctx.twins_sat += 1


def jobs(tier):
    js = [Job(n, job_entry, n) for n, _, _ in entries(tier)]
    js += [Job(n, job_poisson, n) for n, _ in poisson_entries()]
    only = os.environ.get("SYMGRID_ONLY")
    return [j for j in js if not only or only in j.name]


def main():
    t0 = time.time()
    js = jobs(harness.tier())
    res = harness.run_jobs(js)
    return harness.finish(
        PROP, res, t0, "DESIGN.md#c20",
        bounds=dict(entry_points=len(js), aliasing="inputs write-protected; the same array passed twice; callbacks returning fresh arrays, their argument, or one cached write-protected array",
                    contents="symbolic (all paths) except the Poisson option-dictionary entries, which run concretely with the ODE drivers stubbed"),
        outside=["entry points that cannot run under the engine (SciPy-internal callers, cube I/O, interpolation, MolGrid/AtomGrid constructors with shipped data: see C19 for their caches)"],
        assumptions=["NumPy enforces flags.writeable=False for object arrays", "k-d tree / ODE drivers stubbed where the entry point needs them"])


if __name__ == "__main__":
    sys.exit(main())
