"""C15 - ODE solvers: the transformation algebra around SciPy's integrators (ode.py).

The numerical integrators are stubs that capture what they are given; what is decided is that the problem handed to them and the mapping of
initial data / returned derivatives are exact chain-rule identities for ARBITRARY coefficient functions, right-hand sides and transforms
(uninterpreted functions with their derivatives).
"""
import sys, time, os, itertools, math, ast
import numpy as np
from fractions import Fraction
from symgrid import dag, poly, smt, sym, npproxy, harness
from symgrid.sym import Engine, Sym, real, K, node_of
from symgrid.harness import Job, Ctx
from harness.C03 import unpatched

PROP = "C15"


def _mods():
    import grid.ode as ode, grid.rtransform as rt
    return ode, rt


def arr(vals, shape=None):
    a = np.empty(len(vals), dtype=object)
    a[:] = vals
    return a if shape is None else a.reshape(shape)


def bell_stub(n, k, xs):
    """incomplete Bell polynomial B_{n,k}(x_1, ..) by its recurrence (independent of sympy)"""
    xs = list(xs)
    if n == 0 and k == 0:
        return K(1)
    if n == 0 or k == 0:
        return K(0)
    tot = K(0)
    for i in range(1, n - k + 2):
        tot = tot + math.comb(n - 1, i - 1) * xs[i - 1] * bell_stub(n - i, k - 1, xs)
    return tot


class StripFloat(ast.NodeTransformer):
    """float(<expr>) -> <expr>: the library converts sympy numbers to float; with the Bell-polynomial stub the values are already numbers/expressions"""
    def visit_Call(self, node):
        self.generic_visit(node)
        if isinstance(node.func, ast.Name) and node.func.id == "float" and len(node.args) == 1:
            return node.args[0]
        return node


def install():
    ode, rt = _mods()
    npproxy.install(ode)
    npproxy.install(rt)
    ode.bell = bell_stub
    for name in ("_transform_ode_from_derivs", "_derivative_transformation_matrix"):
        setattr(ode, name, harness.recompile(getattr(ode, name), StripFloat(), {"bell": bell_stub}))
    return ode, rt


class AbstractTf:
    """any smooth transform r(x): uninterpreted function with derivatives"""
    def __init__(self, rt):
        self.base = rt.BaseTransform

    def r(self, x, d=0):
        return Sym(dag.uf("r", [node_of(x)], (d,)))


def make_abstract_transform(rt):
    class T(rt.BaseTransform):
        def __init__(self):
            self._domain, self._codomain = (-np.inf, np.inf), (-np.inf, np.inf)

        def _ev(self, x, d):
            if isinstance(x, np.ndarray):
                return arr([Sym(dag.uf("r", [node_of(v)], (d,))) for v in x.ravel()]).reshape(x.shape)
            return Sym(dag.uf("r", [node_of(x)], (d,)))

        def transform(self, x):
            return self._ev(x, 0)

        def deriv(self, x):
            return self._ev(x, 1)

        def deriv2(self, x):
            return self._ev(x, 2)

        def deriv3(self, x):
            return self._ev(x, 3)

        def inverse(self, rr):
            if isinstance(rr, np.ndarray):
                return arr([Sym(dag.uf("rinv", [node_of(v)])) for v in rr.ravel()]).reshape(rr.shape)
            return Sym(dag.uf("rinv", [node_of(rr)]))
    return T()


def chain_lhs(order, x, coeff_vals):
    """sum_k a_k d^k/dx^k of y(x) = Y(r(x)) by symbolic differentiation with uninterpreted Y and r"""
    y = dag.uf("Y", [dag.uf("r", [x.n])])
    tot = K(0)
    cur = y
    for k in range(order + 1):
        tot = tot + coeff_vals[k] * Sym(cur)
        cur = dag.diff(cur, x.n)
    return tot


def Yd(x, j):
    return Sym(dag.uf("Y", [dag.uf("r", [x.n])], (j,)))


def replay_coeff(order):
    def replay(m):
        ode, rt = _mods()
        with unpatched(ode, rt):
            import sympy
            ode.bell = sympy.bell
            import importlib
            importlib.reload(ode)
            # concrete instance: r(x) = x + x^3/3 + 0.2 x^2, a_k(x) = 1 + k + 0.1 x, Y(r) = sin(r) ; check sum a_k y^(k) == sum b_j Y^(j)
            xv = 0.37
            r = lambda t: t + t ** 3 / 3 + 0.2 * t ** 2
            derivs = [lambda t: 1 + t ** 2 + 0.4 * t, lambda t: 2 * t + 0.4 + 0 * t, lambda t: 2.0 + 0 * t][:max(order, 1)]
            while len(derivs) < 3:
                derivs.append(lambda t: 0 * t)
            coeffs = [(lambda k: (lambda t: 1.0 + k + 0.1 * t))(k) for k in range(order + 1)]
            b = ode._transform_ode_from_derivs(coeffs, derivs, np.array([xv]))[:, 0]
            import mpmath
            yfun = lambda t: mpmath.sin(r(t))
            lhs = sum(float(coeffs[k](xv)) * float(mpmath.diff(yfun, xv, k)) for k in range(order + 1))
            Yder = [float(mpmath.diff(mpmath.sin, r(xv), j)) for j in range(order + 1)]
            rhs = sum(b[j] * Yder[j] for j in range(order + 1))
            return abs(lhs - rhs) > 1e-7 * max(1, abs(lhs)), dict(order=order, x=xv, coeff_b=[float(v) for v in b], sum_a_dky=lhs, sum_b_dkY=float(rhs))
    return replay


def job_coeff(ctx: Ctx, order):
    ode, rt = install()
    e = ctx.engine
    ctx.encoded(ode._transform_ode_from_derivs, ode._evaluate_coeffs_on_points, ode._rearrange_to_explicit_ode)
    x = real("x")
    ctx.bounds.update(dict(order=order, coefficients="uninterpreted a_k(x) (callables) and numbers", transform="uninterpreted r with r', r'', r''' (any transform)"))
    key = f"transform_ode:order{order}"
    R = replay_coeff(order)
    a_fun = [(lambda k: (lambda xx: arr([Sym(dag.uf(f"a{k}", [node_of(v)])) for v in xx])))(k) for k in range(order + 1)]
    derivs = [(lambda d: (lambda xx: arr([Sym(dag.uf("r", [node_of(v)], (d,))) for v in xx])))(d) for d in (1, 2, 3)]
    a_vals = [Sym(dag.uf(f"a{k}", [x.n])) for k in range(order + 1)]
    for p in e.run(lambda: ode._transform_ode_from_derivs(a_fun, derivs, arr([x]))):
        ctx.paths += 1
        if p.exc is not None:
            ctx.fail("_transform_ode_from_derivs returns", f"{type(p.exc).__name__}: {str(p.exc)[:160]}", key=key, replay=R, model={})
            continue
        b = p.result
        lhs = chain_lhs(order, x, a_vals)
        rhs = K(0)
        for j in range(order + 1):
            rhs = rhs + b[j, 0] * Yd(x, j)
        ctx.eq(f"order {order}: sum_k a_k d^k/dx^k Y(r(x)) == sum_j b_j Y^(j)(r(x)) for arbitrary a_k, r, Y", lhs, rhs, p.pc, replay=R, key=key)
    # numbers as coefficients
    nums = [real(f"n{k}") for k in range(order + 1)]
    for p in e.run(lambda: ode._transform_ode_from_derivs(nums, derivs, arr([x]))):
        if p.exc is None:
            rhs = K(0)
            for j in range(order + 1):
                rhs = rhs + p.result[j, 0] * Yd(x, j)
            ctx.eq(f"order {order}, constant coefficients", chain_lhs(order, x, nums), rhs, p.pc, replay=R, key=key)
    # explicit first-order system
    yv = arr([real(f"y{j}") for j in range(order)], (order, 1)) if order else None
    if order:
        bb = arr([real(f"b{j}") for j in range(order + 1)], (order + 1, 1))
        fxv = arr([real("f")])
        e.assume(bb[order, 0] > 0)
        for p in e.run(lambda: ode._rearrange_to_explicit_ode(yv, bb, fxv)):
            if p.exc is None:
                want = fxv[0]
                for j in range(order):
                    want = want - bb[j, 0] * yv[j, 0]
                ctx.eq("explicit form: y_K' = (f - sum_{j<K} b_j y_j) / b_K", p.result[0], want / bb[order, 0], p.pc, replay=R, key=key + ":explicit")
    ctx.twin(())


def job_driver(ctx: Ctx, driver, order, with_tf):
    ode, rt = install()
    e = ctx.engine
    ctx.encoded(ode.solve_ode_bvp, ode.solve_ode_ivp, ode._transform_and_rearrange_to_explicit_ode, ode._derivative_transformation_matrix, ode._transform_solution_to_original_domain)
    captured = {}
    sol_calls = []

    class Res:
        status = 0

        @staticmethod
        def sol(t):
            t = np.atleast_1d(np.asarray(t, dtype=object))
            sol_calls.append(t)
            out = np.empty((order, len(t)), dtype=object)
            for j in range(order):
                for i, tv in enumerate(t):
                    out[j, i] = Sym(dag.uf("Ysol", [node_of(tv)], (j,)))       # the integrator's dense output: Y and its derivatives w.r.t. the transformed variable
            return out

    def fake_bvp(func, bc, mesh, y=None, **kw):
        captured.update(func=func, bc=bc, mesh=mesh, y=y, kw=kw)
        return Res()

    def fake_ivp(func, span, y0=None, **kw):
        captured.update(func=func, span=span, y0=y0, kw=kw)
        return Res()

    def fake_solve(A, bvec):
        A, bvec = np.asarray(A, dtype=object), np.asarray(bvec, dtype=object)
        n = len(bvec)
        if n == 0:
            return arr([])
        if n == 1:
            return arr([bvec[0] / A[0, 0]])
        if n == 2:
            det = A[0, 0] * A[1, 1] - A[0, 1] * A[1, 0]
            return arr([(bvec[0] * A[1, 1] - A[0, 1] * bvec[1]) / det, (A[0, 0] * bvec[1] - A[1, 0] * bvec[0]) / det])
        raise dag.NotEncodable("linear solve > 2x2")
    ode.solve_bvp, ode.solve_ivp, ode.solve = fake_bvp, fake_ivp, fake_solve
    tf = make_abstract_transform(rt) if with_tf else None
    x0, x1, xm = real("x0"), real("x1"), real("xm")
    e.assume(x0 < xm, xm < x1)
    coeff_funcs = [(lambda k: (lambda xx: arr([Sym(dag.uf(f"a{k}", [node_of(v)])) for v in np.atleast_1d(xx)])))(k) for k in range(order + 1)]
    fx = lambda xx: arr([Sym(dag.uf("f", [node_of(v)])) for v in np.atleast_1d(xx)])
    key = f"solve_ode_{driver}:order{order}:{'transform' if with_tf else 'plain'}"
    ctx.bounds.update(dict(driver=driver, order=order, transform="abstract (uninterpreted)" if with_tf else None))
    bvals = [real(f"bc{i}") for i in range(order)]
    y0 = [real(f"y0_{i}") for i in range(order)]

    def replay(m):
        """concrete end-to-end run with the real SciPy integrators: inputs intact, and the returned callable answers for the array it is given"""
        import importlib, warnings
        warnings.simplefilter("ignore")
        with unpatched(ode, rt):
            ode2 = importlib.reload(importlib.import_module("grid.ode"))
            from grid.rtransform import BeckeRTransform
            tfc = BeckeRTransform(0.1, 1.5) if with_tf else None
            coeffs = [1.0, 0.0, 1.0] if order == 2 else ([0.5, 1.0] if order == 1 else [1.0, 0.0, 0.5, 1.0])
            fxc = lambda xx: 0.3 * np.cos(xx)
            info = {}
            if driver == "bvp":
                xg = np.linspace(-0.8, 0.8, 40)
                bdc = [(i % 2, i // 2, 0.2 + 0.1 * i) for i in range(order)]
                solc = ode2.solve_ode_bvp(xg, fxc, coeffs, bdc, transform=tfc, no_derivatives=False, tol=1e-6)
            else:
                y0c = np.array([0.3, -0.2, 0.1][:order])
                keep = y0c.copy()
                solc = ode2.solve_ode_ivp((-0.8, 0.8), fxc, coeffs, y0c, transform=tfc, no_derivatives=False)
                if not np.array_equal(y0c, keep):
                    return True, dict(y0_before=keep.tolist(), y0_after=y0c.tolist())
            pts = np.array([-0.5, 0.1, 0.6])
            solc(pts)
            pts[:] = [-0.3, 0.25, 0.7]
            second = np.asarray(solc(pts), float)
            fresh = np.asarray(solc(pts.copy()), float)
            info.update(second_call=second.tolist(), fresh_array=fresh.tolist())
            bad = not np.allclose(second, fresh, rtol=1e-9, atol=1e-12)
            if with_tf:
                # the same problem solved directly in x (no transform) must give the same function of x; initial / boundary data must be met
                try:
                    if driver == "bvp":
                        plain = ode2.solve_ode_bvp(xg, fxc, coeffs, bdc, transform=None, no_derivatives=False, tol=1e-6)
                    else:
                        plain = ode2.solve_ode_ivp((-0.8, 0.8), fxc, coeffs, np.array([0.3, -0.2, 0.1][:order]), transform=None, no_derivatives=False)
                    ref = np.asarray(plain(pts.copy()), float)
                    info.update(direct_solution=ref.tolist())
                    if not np.allclose(fresh, ref, rtol=2e-3, atol=2e-3):
                        bad = True
                    if driver == "ivp":
                        at0 = np.asarray(solc(np.array([-0.8])), float).ravel()
                        info.update(values_at_x0=at0.tolist(), prescribed=[0.3, -0.2, 0.1][:order])
                        if not np.allclose(at0[:order], [0.3, -0.2, 0.1][:order], rtol=1e-4, atol=1e-5):
                            bad = True
                except Exception as ex:
                    info["direct_solve_raised"] = f"{type(ex).__name__}: {ex}"
            return bad, info

    def run():
        if driver == "bvp":
            bd = [(i % 2, i // 2, bvals[i]) for i in range(order)]
            res = ode.solve_ode_bvp(arr([x0, xm, x1]), fx, coeff_funcs, bd, transform=tf, initial_guess_y=arr([real(f"G{j}_{i}") for j in range(order) for i in range(3)], (order, 3)),
                                    no_derivatives=False)
            return res, bd
        y0arr = arr(list(y0))
        y0arr.flags.writeable = False          # the caller's initial data (may be an array that is reused for another solve)
        res = ode.solve_ode_ivp((x0, x1), fx, coeff_funcs, y0arr, transform=tf, no_derivatives=False)
        return res, None
    for p in e.run(run):
        ctx.paths += 1
        if p.exc is not None:
            ctx.fail(f"solve_ode_{driver} sets the problem up", f"{type(p.exc).__name__}: {str(p.exc)[:200]}", key=key, replay=replay, model={})
            continue
        sol, bd = p.result
        func = captured["func"]
        # the right-hand side handed to the integrator
        t = xm if not with_tf else Sym(dag.uf("r", [xm.n]))
        Yv = arr([real(f"Y{j}") for j in range(order)], (order, 1))
        for q in e.run(lambda: func(arr([t]) if driver == "bvp" else t, Yv)):
            if q.exc is not None:
                ctx.fail("captured right-hand side evaluates", f"{type(q.exc).__name__}: {str(q.exc)[:200]}", key=key, replay=replay, model={})
                continue
            out = q.result
            for j in range(order - 1):
                ctx.eq(f"system row {j}: y_{j}' = y_{j + 1}", out[j, 0], Yv[j + 1, 0], q.pc, replay=replay, key=key + ":system")
            xo = Sym(dag.uf("rinv", [node_of(t)])) if with_tf else xm
            avals = [Sym(dag.uf(f"a{k}", [xo.n])) for k in range(order + 1)]
            if with_tf:
                rd = [Sym(dag.uf("r", [xo.n], (d,))) for d in (1, 2, 3)]
                bco = transformed_coeffs(order, avals, rd)
            else:
                bco = avals
            want = Sym(dag.uf("f", [xo.n]))
            for j in range(order):
                want = want - bco[j] * Yv[j, 0]
            ctx.eq("last row: (f(x) - sum_j b_j y_j) / b_K with b the chain-rule coefficients at x = inverse(t)", out[order - 1, 0], want / bco[order], q.pc, replay=replay, key=key + ":system")
        if driver == "bvp":
            ya, yb = arr([real(f"ya{j}") for j in range(order)]), arr([real(f"yb{j}") for j in range(order)])
            cond = captured["bc"](ya, yb)
            for i, (side, der, val) in enumerate(bd):
                ctx.eq(f"boundary condition {i}: y^({der}) at end {side} minus the prescribed value", cond[i], (ya, yb)[side][der] - val, (), replay=replay, key=key + ":bc")
            mesh = captured["mesh"]
            for i, xv in enumerate((x0, xm, x1)):
                ctx.eq(f"mesh point {i} handed to the integrator is {'r(x)' if with_tf else 'x'}", mesh[i], Sym(dag.uf("r", [xv.n])) if with_tf else xv, (), replay=replay, key=key + ":mesh")
        else:
            span, y0c = captured["span"], captured["y0"]
            ctx.eq("integration starts at r(x0)" if with_tf else "integration starts at x0", span[0], Sym(dag.uf("r", [x0.n])) if with_tf else x0, (), replay=replay, key=key + ":mesh")
            if with_tf and order >= 2:
                rd = [Sym(dag.uf("r", [x0.n], (d,))) for d in (1, 2, 3)]
                # (dy/dx, d2y/dx2) = M (Y', Y'') with the chain rule
                Yp = [y0c[j] for j in range(order)]
                ctx.eq("initial value is kept", Yp[0], y0[0], (), replay=replay, key=key + ":initial")
                ctx.eq("initial slope: dy/dx = Y' r'", Yp[1] * rd[0], y0[1], (), replay=replay, key=key + ":initial")
                if order == 3:
                    ctx.eq("initial curvature: d2y/dx2 = Y'' r'^2 + Y' r''", Yp[2] * rd[0] ** 2 + Yp[1] * rd[1], y0[2], (), replay=replay, key=key + ":initial")
            elif not with_tf:
                for j in range(order):
                    ctx.eq(f"initial datum {j} handed over unchanged", y0c[j], y0[j], (), replay=replay, key=key + ":initial")
        # the returned callable: values and derivatives w.r.t. the ORIGINAL variable, also after an in-place refill of the argument array
        if with_tf:
            pts = arr([real("q0"), real("q1")])
            for q in e.run(lambda: (sol(pts), pts.__setitem__(0, real("q2")), sol(pts))):
                if q.exc is not None:
                    ctx.fail("returned callable evaluates", f"{type(q.exc).__name__}: {str(q.exc)[:200]}", key=key, replay=replay, model={})
                    continue
                first, _, second = q.result
                for label, res, qs in (("first call", first, [real("q0"), real("q1")]), ("second call after refilling the same array in place", second, [real("q2"), real("q1")])):
                    for i, qv in enumerate(qs):
                        tq = dag.uf("r", [qv.n])
                        Ys = [Sym(dag.uf("Ysol", [tq], (j,))) for j in range(order)]
                        rd = [Sym(dag.uf("r", [qv.n], (d,))) for d in (1, 2, 3)]
                        ctx.eq(f"{label}, point {i}: value Y(r(x))", res[0, i], Ys[0], q.pc, replay=replay, key=key + ":solution")
                        if order >= 2:
                            ctx.eq(f"{label}, point {i}: dy/dx = Y' r'", res[1, i], Ys[1] * rd[0], q.pc, replay=replay, key=key + ":solution")
                        if order >= 3:
                            ctx.eq(f"{label}, point {i}: d2y/dx2 = Y'' r'^2 + Y' r''", res[2, i], Ys[2] * rd[0] ** 2 + Ys[1] * rd[1], q.pc, replay=replay, key=key + ":solution")
    ctx.twin(())


def transformed_coeffs(order, a, rd):
    b = [K(0)] * (order + 1)
    b[0] = a[0]
    if order >= 1:
        b[1] = a[1] * rd[0]
    if order >= 2:
        b[1] = b[1] + a[2] * rd[1]
        b[2] = a[2] * rd[0] ** 2
    if order >= 3:
        b[1] = b[1] + a[3] * rd[2]
        b[2] = b[2] + a[3] * 3 * rd[0] * rd[1]
        b[3] = a[3] * rd[0] ** 3
    return b


def jobs(tier):
    js = [Job(f"coeff/order{k}", job_coeff, k) for k in (1, 2, 3)]
    for driver in ("bvp", "ivp"):
        for order in (1, 2, 3):
            for with_tf in (False, True):
                js.append(Job(f"driver/{driver}/order{order}/{'tf' if with_tf else 'plain'}", job_driver, driver, order, with_tf))
    only = os.environ.get("SYMGRID_ONLY")
    return [j for j in js if not only or only in j.name]


def main():
    t0 = time.time()
    res = harness.run_jobs(jobs(harness.tier()))
    return harness.finish(
        PROP, res, t0, "DESIGN.md#c15",
        bounds=dict(orders="1-3", coefficients="uninterpreted functions and symbolic numbers", transform="abstract: any thrice differentiable r(x) (uninterpreted with derivatives)", drivers="solve_ode_bvp and solve_ode_ivp, plain and transformed"),
        outside=["convergence / accuracy of SciPy's solve_bvp and solve_ivp ('within the solver tolerance')", "order > 3 with a transform (rejected by the library); order >= 4 Bell branch of _transform_ode_from_derivs"],
        assumptions=["scipy.integrate.solve_bvp / solve_ivp replaced by capturing stubs whose dense output is an uninterpreted function with derivatives", "scipy.linalg.solve replaced by exact 1x1 / 2x2 solution",
                     "sympy.bell replaced by the recurrence of the incomplete Bell polynomial; float(...) wrappers around it stripped (functions recompiled from current source)"])


if __name__ == "__main__":
    sys.exit(main())
