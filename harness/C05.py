"""C05 - an atomic grid is exactly the product of its radial grid and per-shell spheres (atomgrid.py)."""
import sys, time, os, itertools, math
import numpy as np
from fractions import Fraction
from symgrid import dag, poly, smt, sym, npproxy, harness
from symgrid.sym import Engine, Sym, real, K, node_of, PI
from symgrid.harness import Job, Ctx
from harness.C03 import unpatched
from harness.C19 import load_hook, raw_grid, clear_caches

PROP = "C05"
SMALL = {"lebedev": [3, 5, 7], "spherical": [1, 3, 5], "maxdet": [1, 2, 3], "ahrens_beylkin": [14]}


def _mods():
    import grid.angular as an, grid.atomgrid as ag, grid.basegrid as bg, grid.utils as ut
    return an, ag, bg, ut


def arr(vals, shape=None):
    a = np.empty(len(vals), dtype=object)
    a[:] = vals
    return a if shape is None else a.reshape(shape)


def install():
    an, ag, bg, ut = _mods()
    for m in (an, ag, bg, ut):
        npproxy.install(m, load_hook=load_hook)
    clear_caches(an)
    return an, ag, bg, ut


def rotation(seed):
    from scipy.spatial.transform import Rotation as R
    return R.random(random_state=seed).as_matrix()


def job_atomgrid(ctx: Ctx, method, degs, rotate, via):
    """via: 'degrees' (list per shell), 'single' ([d] broadcast), 'sizes' (sizes= list)"""
    an, ag, bg, ut = install()
    e = ctx.engine
    ctx.encoded(ag.AtomGrid.__init__, ag.AtomGrid._generate_atomic_grid, ag.AtomGrid.points.fget, ag.AtomGrid.get_shell_grid, an.AngularGrid.__init__)
    n = len(degs)
    r = [real(f"r{i}") for i in range(n)]
    w = [real(f"rw{i}") for i in range(n)]
    c = arr([real(f"c{a}") for a in range(3)])
    e.assume(r[0] >= 0)
    for i in range(1, n):
        e.assume(r[i] > r[i - 1])
    ctx.bounds.update(dict(method=method, shell_degrees=degs, rotate=rotate, via=via))
    key = f"AtomGrid:{method}:rotate={'0' if rotate == 0 else 'seeded'}"
    raws = [raw_grid(method, d) for d in degs]

    def replay(m):
        with unpatched(an, ag, bg, ut):
            clear_caches(an)
            g = lambda nm, d: float(m.get(nm, d))
            rr = np.array([g(f"r{i}", 0.5 + i) for i in range(n)])
            ww = np.array([g(f"rw{i}", 0.3 + 0.1 * i) for i in range(n)])
            cc = np.array([g(f"c{a}", 0.25 * (a + 1)) for a in range(3)])
            import warnings
            warnings.simplefilter("ignore")
            rg = bg.OneDGrid(rr, ww, (0, np.inf))
            if via == "sizes":
                at = ag.AtomGrid(rg, None, sizes=[len(rw_[0]) for rw_ in raws], center=cc, rotate=rotate, method=method)
            else:
                at = ag.AtomGrid(rg, degrees=list(degs) if via == "degrees" else [degs[0]], center=cc, rotate=rotate, method=method)
            bad, info = False, dict(method=method, degrees=degs, rotate=rotate, r=rr.tolist(), centre=cc.tolist())
            off = 0
            for i, (P, W, fourpi) in enumerate(raws if via != "single" else [raws[0]] * n):
                Q = rotation(rotate + i) if rotate else np.eye(3)
                want_p = cc + rr[i] * (P @ Q)
                want_w = W * (4 * np.pi if fourpi else 1) * ww[i] * rr[i] ** 2
                sl = slice(off, off + len(P))
                if at.indices[i] != off or not np.allclose(at.points[sl], want_p, atol=1e-12) or not np.allclose(at.weights[sl], want_w, rtol=1e-12, atol=1e-14):
                    bad = True
                    info[f"shell{i}"] = dict(first_point=at.points[off].tolist(), expected=want_p[0].tolist())
                sg = at.get_shell_grid(i)
                if not np.allclose(sg.points, want_p - cc, atol=1e-12) or not np.allclose(sg.weights, want_w, rtol=1e-12, atol=1e-14):
                    bad = True
                    info[f"shell_grid{i}"] = dict(first_point=sg.points[0].tolist(), expected=(want_p - cc)[0].tolist())
                off += len(P)
            clear_caches(an)
            return bad, info

    def body():
        import warnings
        warnings.simplefilter("ignore")
        rg = bg.OneDGrid(arr(r), arr(w), (0, np.inf))
        if via == "sizes":
            at = ag.AtomGrid(rg, None, sizes=[len(rw_[0]) for rw_ in raws], center=c, rotate=rotate, method=method)
        else:
            at = ag.AtomGrid(rg, degrees=list(degs) if via == "degrees" else [degs[0]], center=c, rotate=rotate, method=method)
        at0 = ag.AtomGrid(rg, degrees=list(degs) if via != "single" else [degs[0]], center=None, rotate=rotate, method=method)
        shells = [(at.get_shell_grid(i), at.get_shell_grid(i, r_sq=False)) for i in range(n)]
        return at.points, at.weights, at.indices, at.degrees, at0.points, shells, at.size
    for p in e.run(body):
        ctx.paths += 1
        if p.exc is not None:
            ctx.fail("AtomGrid() constructs", f"{type(p.exc).__name__}: {str(p.exc)[:160]}", key=key + ":raises", replay=replay, model=ctx.model_for(p.pc) or {})
            continue
        if ctx.twin(p.pc) == "unsat":
            continue
        P_, W_, ind, degrees, P0, shells, size = p.result
        use = raws if via != "single" else [raws[0]] * n
        exp_ind = [0]
        for (Pr, _, _) in use:
            exp_ind.append(exp_ind[-1] + len(Pr))
        (ctx.ok if [int(v) for v in ind] == exp_ind and int(size) == exp_ind[-1] else ctx.fail)("shell index table == prefix sums of the shipped shell sizes", detail=str(list(ind)), key=key + ":indices", replay=replay)
        exp_deg = [an.AngularGrid._get_degree_and_size(degree=d, size=None, method=method)[0] for d in (degs if via != "single" else [degs[0]] * n)]
        (ctx.ok if [int(v) for v in degrees] == exp_deg else ctx.fail)("degrees == degrees of the shipped files", detail=str(list(degrees)), key=key + ":indices", replay=replay)
        if [int(v) for v in ind] != exp_ind:
            continue
        for i, (Pr, Wr, fourpi) in enumerate(use):
            Q = rotation(rotate + i) if rotate else np.eye(3)
            U = npproxy.lift(Pr)
            if rotate:
                U = U @ Q
            Wl = npproxy.lift(Wr)
            if fourpi:
                Wl = Wl * 4 * PI
            sg, sg_nosq = shells[i]
            for k in range(len(Pr)):
                row = exp_ind[i] + k
                for a in range(3):
                    ctx.eq(f"shell {i} node {k}: point[{a}] == centre + r_i * (Q_i u_k)", P_[row, a], c[a] + r[i] * U[k, a], p.pc, replay=replay, key=key + ":points")
                    ctx.eq(f"shell {i} node {k}: moving the centre only translates", P_[row, a] - P0[row, a], c[a], p.pc, replay=replay, key=key + ":centre")
                    ctx.eq(f"get_shell_grid({i}) node {k}: point relative to the centre", sg.points[k, a], r[i] * U[k, a], p.pc, replay=replay, key=key + ":shell-grid")
                ctx.eq(f"shell {i} node {k}: weight == w_i r_i^2 omega_k", W_[row], w[i] * r[i] ** 2 * Wl[k], p.pc, replay=replay, key=key + ":weights")
                ctx.eq(f"get_shell_grid({i}) node {k}: weight == w_i r_i^2 omega_k", sg.weights[k], w[i] * r[i] ** 2 * Wl[k], p.pc, replay=replay, key=key + ":shell-grid")
                ctx.eq(f"get_shell_grid({i}, r_sq=False) node {k}: weight == w_i omega_k", sg_nosq.weights[k], w[i] * Wl[k], p.pc, replay=replay, key=key + ":shell-grid")
        if rotate:
            for i in range(n):
                Q = rotation(rotate + i)
                ok = np.allclose(Q @ Q.T, np.eye(3), atol=1e-12) and abs(np.linalg.det(Q) - 1) < 1e-12
                (ctx.ok if ok else ctx.fail)(f"rotation for shell {i} (seed {rotate + i}) is orthogonal (ground fact): radii unchanged", key=key + ":rotation", replay=replay)
    clear_caches(an)


def job_sectors(ctx: Ctx, nsec, nrad):
    an, ag, bg, ut = install()
    e = ctx.engine
    ctx.encoded(ag.AtomGrid._find_degrees_for_radial_points, ag.AtomGrid._generate_degree_from_radius)
    r = arr([real(f"r{i}") for i in range(nrad)])
    s = [real(f"s{j}") for j in range(nsec)]
    R_ = real("radius")
    e.assume(R_ > 0)
    for i in range(nrad):
        e.assume(r[i] >= 0)
    for j in range(nsec):
        e.assume(s[j] > (s[j - 1] if j else 0))
    dsec = [3, 11, 5, 17][: nsec + 1]
    matched = [an.AngularGrid._get_degree_and_size(degree=d, size=None, method="lebedev")[0] for d in dsec]
    key = "sectors"
    ctx.bounds.update(dict(sector_radii=nsec, radial_points=nrad, d_sectors=dsec))

    def replay(m):
        with unpatched(an, ag, bg, ut):
            rr = np.array([float(m.get(f"r{i}", 0.5 * i)) for i in range(nrad)])
            ss = np.array([float(m.get(f"s{j}", 0.5 + j)) for j in range(nsec)])
            Rv = float(m.get("radius", 1.3))
            got = ag.AtomGrid._generate_degree_from_radius(bg.OneDGrid(rr, np.ones(nrad)), Rv, ss, dsec, "lebedev")
            want = [matched[int(np.sum(v > Rv * ss))] for v in rr]
            return [int(v) for v in got] != want, dict(r=rr.tolist(), sectors=(Rv * ss).tolist(), returned=[int(v) for v in got], expected=want)
    for p in e.run(lambda: ag.AtomGrid._generate_degree_from_radius(bg.OneDGrid(r, arr([K(1)] * nrad)), R_, s, dsec, "lebedev")):
        ctx.paths += 1
        if p.exc is not None:
            ctx.fail("_generate_degree_from_radius returns", f"{type(p.exc).__name__}: {p.exc}", key=key, replay=replay, model=ctx.model_for(p.pc) or {})
            continue
        if ctx.twin(p.pc) == "unsat":
            continue
        got = [int(v) for v in p.result]
        for i in range(nrad):
            j = matched.index(got[i]) if got[i] in matched else None
            if j is None:
                ctx.fail(f"radial point {i} gets one of the matched sector degrees", detail=str(got[i]), key=key, replay=replay, model=ctx.model_for(p.pc) or {})
                continue
            lo = (r[i] > R_ * s[j - 1]) if j > 0 else True
            hi = (r[i] <= R_ * s[j]) if j < nsec else True
            f = lo & hi if not (lo is True or hi is True) else (hi if lo is True else lo)
            if f is True:
                ctx.ok(f"radial point {i}: single sector", how="folded")
            else:
                ctx.holds(f"radial point {i}: degree {got[i]} <=> R*s_{j - 1} < r <= R*s_{j}", f, p.pc, replay=replay, key=key)


def job_presets(ctx: Ctx, presets, atnums, method):
    """argument fan-out of AtomGrid.from_preset for every (preset, element): centre / rotate / method handed on, per-shell degrees not coarser than tabulated."""
    an, ag, bg, ut = install()
    import grid
    ctx.encoded(ag.AtomGrid.from_preset)
    c = arr([real("c0"), real("c1"), real("c2")])
    key = f"from_preset:{method}"
    nt = {"lebedev": an.LEBEDEV_NPOINTS, "spherical": an.SPHERICAL_NPOINTS, "maxdet": an.MAX_DET_NPOINTS, "ahrens_beylkin": an.AHRENS_BEYLKIN_NPOINTS}[method]
    sizes_sorted = sorted(nt)

    def deg_for_size(sz):
        return nt[min(s_ for s_ in sizes_sorted if s_ >= sz)]

    class Capture(ag.AtomGrid):
        def __init__(self, rgrid, degrees=None, *, sizes=None, center=None, rotate=0, method="lebedev"):
            self.cap = dict(rgrid=rgrid, degrees=degrees, sizes=sizes, center=center, rotate=rotate, method=method)
    rg = bg.OneDGrid(np.array([0.05, 0.4, 1.1, 2.5, 6.0, 14.0]), np.ones(6), (0, np.inf))
    n_ok, bad = 0, []
    base = os.path.join(os.path.dirname(grid.__file__), "data", "prune_grid")
    for preset in presets:
        data = np.load(os.path.join(base, f"prune_grid_{preset}.npz"))
        for atnum in atnums:
            if f"{atnum}_rad" not in data.files:
                continue
            rad, npt = data[f"{atnum}_rad"], data[f"{atnum}_npt"]
            try:
                cap = Capture.from_preset(atnum, preset, rgrid=rg, center=c, rotate=5, method=method).cap
            except (dag.NotEncodable, sym.HarnessError):
                raise
            except Exception as ex:
                bad.append((preset, atnum, f"raises {type(ex).__name__}: {str(ex)[:80]}"))
                continue
            problems = []
            # which layout the table entry has is read off the data itself, not off the branch the code took: integer `rad` = number of shells per
            # sector (one size per sector), floating `rad` = sector boundaries (one more size than boundaries)
            counts_layout = np.issubdtype(np.asarray(rad).dtype, np.integer)
            if counts_layout and cap["sizes"] is None:
                problems.append(f"table entry stores shell counts {list(map(int, rad))} but they were used as sector radii")
            if not counts_layout and cap["sizes"] is not None:
                problems.append("table entry stores sector radii but they were used as shell counts")
            if cap["center"] is None or any(node_of(cap["center"][a]) is not node_of(c[a]) for a in range(3)):
                problems.append("centre not handed on")
            if cap["rotate"] != 5:
                problems.append("rotate not handed on")
            if cap["method"] != method:
                problems.append("method not handed on")
            if cap["sizes"] is not None:
                want = [int(npt[i]) for i in range(len(rad)) for _ in range(int(rad[i]))]
                if [int(v) for v in cap["sizes"]] != want:
                    problems.append("per-shell sizes differ from the table")
            else:
                thresholds = np.asarray(rad, float)
                want = [deg_for_size(int(npt[int(np.sum(rp_ > thresholds))])) for rp_ in rg.points]
                if [int(v) for v in cap["degrees"]] != want:
                    problems.append(f"per-shell degrees {list(map(int, cap['degrees']))} coarser/different from tabulated {want}")
            if problems:
                bad.append((preset, atnum, "; ".join(problems)))
            else:
                n_ok += 1
    ctx.paths += n_ok + len(bad)
    for preset, atnum, what in bad[:12]:
        def replay(m, preset=preset, atnum=atnum, what=what):
            with unpatched(an, ag, bg, ut):
                cc = np.array([0.3, -0.7, 1.1])
                if "shell counts" in what:
                    # real API: a radial grid with exactly the tabulated number of shells, reaching beyond the largest count read as a radius
                    d_ = np.load(os.path.join(base, f"prune_grid_{preset}.npz"))
                    rad_, npt_ = d_[f"{atnum}_rad"], d_[f"{atnum}_npt"]
                    n_ = int(np.sum(rad_))
                    rgr = bg.OneDGrid(np.linspace(0.05, float(np.max(rad_)) * 1.5, n_), np.ones(n_), (0, np.inf))
                    want_ = [int(npt_[i]) for i in range(len(rad_)) for _ in range(int(rad_[i]))]
                    try:
                        g_ = ag.AtomGrid.from_preset(atnum, preset, rgrid=rgr, method=method)
                    except Exception as ex:
                        return True, dict(preset=preset, atnum=atnum, radial_points=n_, raised=f"{type(ex).__name__}: {ex}")
                    got_ = np.diff(g_.indices).tolist()
                    ok_ = all(g >= w for g, w in zip(got_, want_)) and len(got_) == len(want_)
                    return (not ok_), dict(preset=preset, atnum=atnum, shell_sizes=got_[:8], tabulated=want_[:8])
                at = ag.AtomGrid.from_preset(atnum, preset, rgrid=None if preset not in ("sg_1",) or atnum <= 19 else None, center=cc, rotate=0, method=method) if False else None
                try:
                    cap = Capture.from_preset(atnum, preset, rgrid=rg, center=cc, rotate=5, method=method).cap
                except Exception as ex:
                    return True, dict(raised=str(ex))
                return True, dict(preset=preset, atnum=atnum, centre_received=None if cap["center"] is None else np.asarray(cap["center"], float).tolist(), method_received=cap["method"],
                                  degrees=None if cap["degrees"] is None else [int(v) for v in cap["degrees"]])
        ctx.fail(f"from_preset({atnum}, {preset!r}, method={method!r}): {what}", detail=what, key=f"from_preset:{preset}:Z={atnum}", replay=replay, model={})
    ctx.ok(f"{n_ok} (preset, element) pairs hand centre (symbolic), rotation seed and method on to the constructor and request per-shell degrees/sizes not coarser than tabulated", how="path")
    ctx.twins_sat += 1


def job_cross_method(ctx: Ctx):
    """histories across methods in one process: the size -> degree rule of one method must not depend on which method was used before."""
    an, ag, bg, ut = _mods()
    ctx.encoded(an.AngularGrid.convert_angular_sizes_to_degrees)
    tables = {"lebedev": an.LEBEDEV_NPOINTS, "spherical": an.SPHERICAL_NPOINTS, "maxdet": an.MAX_DET_NPOINTS, "ahrens_beylkin": an.AHRENS_BEYLKIN_NPOINTS}
    sizes = [6, 26, 72, 110, 194, 434]
    bad = []
    import warnings
    warnings.simplefilter("ignore")
    for m1, m2 in itertools.permutations(tables, 2):
        an.AngularGrid.convert_angular_sizes_to_degrees(sizes, m1)
        rg = bg.OneDGrid(np.array([0.5, 1.0]), np.ones(2), (0, np.inf))
        ag.AtomGrid(rg, None, sizes=[sizes[0], sizes[1]], method=m1)
        got = [int(v) for v in an.AngularGrid.convert_angular_sizes_to_degrees(sizes, m2)]
        want = [tables[m2][min(s_ for s_ in tables[m2] if s_ >= sz)] for sz in sizes]
        at = ag.AtomGrid(rg, None, sizes=[sizes[2], sizes[3]], method=m2)
        want_at = want[2:4]
        if got != want or [int(v) for v in at.degrees] != want_at:
            bad.append(dict(first=m1, then=m2, sizes=sizes, returned=got, expected=want, atomgrid_degrees=[int(v) for v in at.degrees]))
    (ctx.ok if not bad else ctx.fail)("after using sizes with one method, the same sizes with another method still resolve by that method's own table (12 ordered method pairs)", detail=str(bad[:1]),
                                      key="sizes:cross-method-history", replay=(lambda m: (True, dict(first_bad=bad[:1]))), **({} if not bad else dict(model={})))
    ctx.twins_sat += 1


def jobs(tier):
    js = [Job("sizes/cross-method-history", job_cross_method)]
    for method, ds in SMALL.items():
        d2 = ds[:2] if len(ds) > 1 else ds * 2
        js.append(Job(f"atomgrid/{method}/degrees/rot0", job_atomgrid, method, d2, 0, "degrees"))
        js.append(Job(f"atomgrid/{method}/single/rot37", job_atomgrid, method, [ds[0]] * 2, 37, "single"))
        if method != "ahrens_beylkin":
            js.append(Job(f"atomgrid/{method}/sizes/rot1", job_atomgrid, method, d2, 1, "sizes"))
        if tier == "thorough" and len(ds) > 2:
            js.append(Job(f"atomgrid/{method}/3shells/rot5", job_atomgrid, method, [ds[0], ds[0], ds[2]], 5, "degrees"))
    js.append(Job("atomgrid/lebedev/equal-degrees/rot9", job_atomgrid, "lebedev", [3, 3, 3], 9, "degrees"))
    js.append(Job("sectors/2x2", job_sectors, 2, 2))
    js.append(Job("sectors/1x3", job_sectors, 1, 3))
    if tier == "thorough":
        js.append(Job("sectors/3x2", job_sectors, 3, 2))
    all_presets = ["coarse", "medium", "fine", "veryfine", "ultrafine", "insane", "sg_0", "sg_1", "sg_2", "sg_3", "g1", "g2", "g3", "g4", "g5", "g6", "g7"]
    els = [1, 6, 8, 17, 19, 20, 26, 35] if tier == "quick" else list(range(1, 87))
    for method in ("lebedev", "ahrens_beylkin", "spherical"):
        # the table layout does not depend on the method: all 86 elements are walked with Lebedev on every run
        if method == "lebedev" or tier == "thorough":
            for lo in range(1, 87, 15):
                js.append(Job(f"presets/{method}/Z={lo}-{min(lo + 14, 86)}", job_presets, all_presets, list(range(lo, min(lo + 15, 87))), method))
        else:
            js.append(Job(f"presets/{method}", job_presets, all_presets, els, method))
    only = os.environ.get("SYMGRID_ONLY")
    return [j for j in js if not only or only in j.name]


def main():
    t0 = time.time()
    res = harness.run_jobs(jobs(harness.tier()))
    return harness.finish(
        PROP, res, t0, "DESIGN.md#c05",
        bounds=dict(shells="2-3 shells with symbolic radii (r_0 >= 0 incl. 0), weights and centre", degrees="the smallest shipped degrees of each of the 4 methods", rotation="seeds 0, 1, 5, 9, 37",
                    sectors="1-3 symbolic sector radii x 2-3 symbolic radial points", presets="17 presets x 86 elements (Lebedev) + x 8 elements (2 other methods) (quick) / 86 elements x 3 methods: argument fan-out with a symbolic centre"),
        outside=["integrals of g(r) Y_lm factorising (corollary of the shell identities and C02)", "higher degrees than the smallest per method (the code path is degree-independent)",
                 "preset grids are checked at the level of the arguments handed to the constructor, not by building every grid"],
        assumptions=["np.load contents lifted to exact constants", "Rotation.random(seed).as_matrix() run natively; orthogonality is a ground fact at 1e-12"])


if __name__ == "__main__":
    sys.exit(main())
