"""C09 - harmonic decomposition / interpolation on atomic grids (atomgrid.py, molgrid.py): wiring around the cubic splines.

SciPy's CubicSpline is a stub: it records (x, y) and its evaluation is an uninterpreted function S_j^(nu)(r) with S_j(x_i) = y_i.
"""
import sys, time, os, itertools, math
import numpy as np
from fractions import Fraction
from symgrid import dag, poly, smt, sym, npproxy, harness
from symgrid.sym import Engine, Sym, real, K, node_of, PI
from symgrid.angles import Ang
from symgrid.harness import Job, Ctx
from harness.C03 import unpatched
from harness.C19 import load_hook, raw_grid, clear_caches

PROP = "C09"


def _mods():
    import grid.angular as an, grid.atomgrid as ag, grid.basegrid as bg, grid.utils as ut, grid.molgrid as mg
    return an, ag, bg, ut, mg


def arr(vals, shape=None):
    a = np.empty(len(vals), dtype=object)
    a[:] = vals
    return a if shape is None else a.reshape(shape)


class SplineStub:
    created = []

    def __init__(self, x=None, y=None, **kw):
        self.x = np.array(x, dtype=object)
        self.y = np.array(y, dtype=object)
        self.id = len(SplineStub.created)
        SplineStub.created.append(self)

    def __call__(self, r, nu=0):
        r = np.asarray(r, dtype=object)
        out = np.empty(r.shape, dtype=object)
        for idx in np.ndindex(*r.shape):
            v = r[idx]
            hit = None
            if nu == 0 and self.y.ndim == 1:
                for i, xi in enumerate(self.x):
                    if node_of(xi) is node_of(v):
                        hit = self.y[i]
            out[idx] = hit if hit is not None else Sym(dag.uf(f"S{self.id}", [node_of(v)], (int(nu),)))
        return out if out.shape != () else out.item()


def install():
    mods = _mods()
    for m in mods:
        npproxy.install(m, load_hook=load_hook)
    an, ag, bg, ut, mg = mods
    clear_caches(an)
    ag.CubicSpline = SplineStub
    SplineStub.created = []
    ag.generate_derivative_real_spherical_harmonics = lambda lmax, theta, phi: arr(
        [Sym(dag.uf("dY", [dag.const(c), dag.const(row), dag.const(j)])) for c in range(2) for row in range((lmax + 1) ** 2) for j in range(len(theta))], (2, (lmax + 1) ** 2, len(theta)))
    return mods


def shell_layout(method, degs):
    raws = [raw_grid(method, d) for d in degs]
    offs = [0]
    for P, _, _ in raws:
        offs.append(offs[-1] + len(P))
    return raws, offs


def job_decompose(ctx: Ctx, method, degs, r0_zero, concrete_r):
    an, ag, bg, ut, mg = install()
    e = ctx.engine
    sym.Engine.cur = e
    ctx.encoded(ag.AtomGrid.integrate_angular_coordinates, ag.AtomGrid.radial_component_splines, ag.AtomGrid.spherical_average, ag.AtomGrid.convert_cartesian_to_spherical)
    n = len(degs)
    if concrete_r:
        r = [K(Fraction(i + 1)) if not (r0_zero and i == 0) else K(0) for i in range(n)]
    else:
        r = [K(0) if (r0_zero and i == 0) else real(f"r{i}") for i in range(n)]
        for i in range(n):
            if not (r0_zero and i == 0):
                e.assume(r[i] > (r[i - 1] if i and not (r0_zero and i == 1) else K(Fraction(1, 10 ** 6))))
    w = [real(f"rw{i}") for i in range(n)]
    for wi in w:
        e.assume(wi > 0)
    c = arr([real(f"c{a}") for a in range(3)])
    raws, offs = shell_layout(method, degs)
    size = offs[-1]
    f = arr([real(f"f{k}") for k in range(size)])
    f.flags.writeable = False
    lmax = max(an.AngularGrid._get_degree_and_size(degree=d, size=None, method=method)[0] for d in degs) // 2
    ctx.bounds.update(dict(method=method, shell_degrees=degs, node_at_r0=r0_zero, radii="concrete 1,2,.." if concrete_r else "symbolic", l_max_half=lmax, values="symbolic function values at every grid point"))
    key = f"decompose:{method}"

    def replay(m):
        with unpatched(an, ag, bg, ut, mg):
            import scipy.interpolate, warnings
            warnings.simplefilter("ignore")
            ag.CubicSpline = scipy.interpolate.CubicSpline
            clear_caches(an)
            try:
                rr = np.array([0.0 if (r0_zero and i == 0) else float(m.get(f"r{i}", i + 1.0)) for i in range(n)])
                ww = np.array([float(m.get(f"rw{i}", 0.3 + 0.1 * i)) for i in range(n)])
                cc = np.array([float(m.get(f"c{a}", 0.2 * a)) for a in range(3)])
                fv = np.array([float(m.get(f"f{k}", math.sin(1.0 + k))) for k in range(size)])
                keep = fv.copy()
                at = ag.AtomGrid(bg.OneDGrid(rr, ww, (0, np.inf)), degrees=list(degs), center=cc, method=method)
                got = at.integrate_angular_coordinates(fv)
                want = np.array([np.sum(fv[offs[i]:offs[i + 1]] * raws[i][1] * (4 * np.pi if raws[i][2] else 1)) for i in range(n)])
                bad = not np.allclose(got, want, rtol=1e-9, atol=1e-12)
                at.spherical_average(fv)
                got2 = at.integrate_angular_coordinates(fv)
                bad = bad or not np.allclose(got2, want, rtol=1e-9, atol=1e-12) or not np.array_equal(fv, keep)
                spl = at.radial_component_splines(fv)
                # projections handed to the splines, with the truncation rule on coarser shells
                sphpts = at.convert_cartesian_to_spherical()
                Y = ut.generate_real_spherical_harmonics(lmax, sphpts[:, 1], sphpts[:, 2])
                info = dict(angular_integrals=got.tolist(), expected=want.tolist(), function_values_modified=not np.array_equal(fv, keep))
                dmax = max(at.degrees)
                for row, sp_ in enumerate(spl):
                    for i in range(n):
                        wantp = np.sum(fv[offs[i]:offs[i + 1]] * Y[row, offs[i]:offs[i + 1]] * raws[i][1] * (4 * np.pi if raws[i][2] else 1))
                        if at.degrees[i] != dmax and row >= (at.degrees[i] // 2 + 1) ** 2:
                            wantp = 0.0
                        if abs(float(sp_(rr[i])) - wantp) > 1e-8 * max(1, abs(wantp)):
                            bad = True
                            info[f"spline{row}@shell{i}"] = dict(value=float(sp_(rr[i])), projection=float(wantp))
                return bad, info
            finally:
                ag.CubicSpline = SplineStub
                clear_caches(an)

    def body():
        import warnings
        warnings.simplefilter("ignore")
        at = ag.AtomGrid(bg.OneDGrid(arr(r), arr(w), (0, np.inf)), degrees=list(degs), center=c, method=method)
        ang = at.integrate_angular_coordinates(f)
        tot = at.integrate(f)
        SplineStub.created = []
        avg = at.spherical_average(f)
        SplineStub.created = []
        spl = at.radial_component_splines(f)
        return at, ang, tot, avg, spl
    for p in e.run(body):
        ctx.paths += 1
        if p.exc is not None:
            ctx.fail("angular integration / spline set-up returns (function values may be read-only)", f"{type(p.exc).__name__}: {str(p.exc)[:200]}", key=key + ":raises", replay=replay,
                     model=ctx.model_for(p.pc) or {})
            continue
        if ctx.twin(p.pc) == "unsat":
            continue
        at, ang, tot, avg, spl = p.result
        omega = []
        for i, (P, W, fourpi) in enumerate(raws):
            wl = npproxy.lift(W)
            omega.append(wl * 4 * PI if fourpi else wl)
        shell_int = []
        for i in range(n):
            s_ = K(0)
            for k in range(offs[i + 1] - offs[i]):
                s_ = s_ + f[offs[i] + k] * omega[i][k]
            shell_int.append(s_)
            ctx.eq(f"shell {i}: integrate_angular_coordinates == sum_k f_k omega_k (r_i^2 w_i removed{', regenerated grid at r = 0' if r0_zero and i == 0 else ''})", ang[i], s_, p.pc, replay=replay, key=key + ":angular")
        rew = K(0)
        for i in range(n):
            rew = rew + r[i] ** 2 * w[i] * shell_int[i]
        ctx.eq("sum_i r_i^2 w_i * (angular integral) == grid.integrate(f)", rew, tot, p.pc, replay=replay, key=key + ":angular")
        for i in range(n):
            ctx.eq(f"spherical_average: spline node {i} == angular integral / 4 pi", avg.y[i], shell_int[i] / (4 * PI), p.pc, replay=replay, key=key + ":average")
            ctx.eq(f"spherical_average: spline abscissa {i} == r_i", avg.x[i], r[i], p.pc, replay=replay, key=key + ":average")
        # projections handed to spline (l, m): sum_k f_k Y_lm(direction k) omega_k with Y from the (C08-verified) recursion at the shipped directions
        nrow = (lmax + 1) ** 2
        (ctx.ok if len(spl) == nrow else ctx.fail)(f"one spline per (l, m) up to l = l_max//2 = {lmax}", detail=str(len(spl)), key=key + ":splines", replay=replay)
        dmax = max(int(d) for d in at.degrees)
        for i, (P, W, fourpi) in enumerate(raws):
            # directions of the shell's points relative to the centre, converted independently (the conversion itself is verified in C08)
            rel = at._points[offs[i]:offs[i + 1]]
            th, ph = [], []
            for k in range(len(P)):
                x_, y_, z_ = rel[k]
                rk = (x_ * x_ + y_ * y_ + z_ * z_).sqrt()
                if rk.n is dag.ZERO:        # r = 0 shell: the code regenerates the unit sphere of that degree
                    U = npproxy.lift(P)
                    x_, y_, z_ = U[k]
                    rk = (x_ * x_ + y_ * y_ + z_ * z_).sqrt()
                th.append(Ang.from_xy(x_, y_))
                ph.append(Ang.from_cos(z_ / rk))
            Yi = ut.generate_real_spherical_harmonics(lmax, arr(th), arr(ph))
            for row in range(min(nrow, len(spl))):
                want = K(0)
                for k in range(len(P)):
                    want = want + f[offs[i] + k] * Yi[row, k] * omega[i][k]
                if int(at.degrees[i]) != dmax and row >= (int(at.degrees[i]) // 2 + 1) ** 2:
                    want = K(0)
                ctx.eq(f"spline {row}, shell {i}: node value == sum_k f_k Y(k) omega_k{' (zeroed: shell too coarse for this l)' if want.n is dag.ZERO else ''}", spl[row].y[i], want, p.pc, replay=replay,
                       key=key + ":splines")
    clear_caches(an)


def job_interpolate(ctx: Ctx, deriv_mode):
    an, ag, bg, ut, mg = install()
    e = ctx.engine
    sym.Engine.cur = e
    ctx.encoded(ag.AtomGrid.interpolate, ut.convert_derivative_from_spherical_to_cartesian)
    method, degs = "lebedev", [3, 3]
    r = [real("r0"), real("r1")]
    e.assume(r[0] > K(Fraction(1, 10 ** 6)), r[1] > r[0])
    w = [real("rw0"), real("rw1")]
    c = arr([real(f"c{a}") for a in range(3)])
    raws, offs = shell_layout(method, degs)
    f = arr([real(f"f{k}") for k in range(offs[-1])])
    rp_, tp, pp = real("rho"), Ang.free("tq", e), Ang.free("pq", e)
    e.assume(rp_ > K(Fraction(1, 100)), pp.s > K(Fraction(1, 100)))
    q = arr([c[0] + rp_ * pp.s * tp.c, c[1] + rp_ * pp.s * tp.s, c[2] + rp_ * pp.c], (1, 3))
    lmax = 1
    key = f"interpolate:{deriv_mode}"
    ctx.bounds.update(dict(mode=deriv_mode, evaluation_point="centre + rho (sin phi cos theta, sin phi sin theta, cos phi), symbolic, away from the centre and the z-axis"))

    def replay(m):
        return None, dict(note="wiring obligation around the spline stub")

    def body():
        import warnings
        warnings.simplefilter("ignore")
        at = ag.AtomGrid(bg.OneDGrid(arr(r), arr(w), (0, np.inf)), degrees=list(degs), center=c, method=method)
        SplineStub.created = []
        fn = at.interpolate(f)
        splines = list(SplineStub.created)
        if deriv_mode == "value":
            return splines, fn(q)
        if deriv_mode == "radial2":
            return splines, fn(q, deriv=2, only_radial_deriv=True)
        if deriv_mode == "spherical":
            return splines, fn(q, deriv=1, deriv_spherical=True)
        return splines, fn(q, deriv=1)
    for p in e.run(body):
        ctx.paths += 1
        if p.exc is not None:
            ctx.fail("interpolate evaluates", f"{type(p.exc).__name__}: {str(p.exc)[:200]}", key=key, replay=replay, model=ctx.model_for(p.pc) or {})
            continue
        if ctx.twin(p.pc) == "unsat":
            continue
        splines, out = p.result
        # spherical coordinates of the evaluation point as the code must find them
        Y = ut.generate_real_spherical_harmonics(lmax, arr([tp]), arr([pp]))[:, 0]
        S = lambda j, nu: Sym(dag.uf(f"S{splines[j].id}", [rp_.n], (nu,)))
        nrow = (lmax + 1) ** 2
        dY = lambda comp, row: Sym(dag.uf("dY", [dag.const(comp), dag.const(row), dag.const(0)]))
        # the code's radius is sqrt(rho^2 (..)) -> |rho|; tie it to rho
        out = np.asarray(out, dtype=object).ravel()
        sub = {}
        if deriv_mode == "value":
            ctx.eq("interpolant == sum_lm S_lm(r) Y_lm(theta, phi)", out[0], sum((S(j, 0) * Y[j] for j in range(nrow)), K(0)), p.pc, replay=replay, key=key)
        elif deriv_mode == "radial2":
            ctx.eq("second radial derivative == sum_lm S_lm''(r) Y_lm", out[0], sum((S(j, 2) * Y[j] for j in range(nrow)), K(0)), p.pc, replay=replay, key=key)
        else:
            d_r = sum((S(j, 1) * Y[j] for j in range(nrow)), K(0))
            d_t = sum((S(j, 0) * dY(0, j) for j in range(nrow)), K(0))
            d_p = sum((S(j, 0) * dY(1, j) for j in range(nrow)), K(0))
            if deriv_mode == "spherical":
                for name, got, want in (("d/dr", out[0], d_r), ("d/dtheta", out[1], d_t), ("d/dphi", out[2], d_p)):
                    ctx.eq(f"spherical derivative {name}", got, want, p.pc, replay=replay, key=key)
            else:
                J = [[tp.c * pp.s, -tp.s / (rp_ * pp.s), tp.c * pp.c / rp_], [tp.s * pp.s, tp.c / (rp_ * pp.s), tp.s * pp.c / rp_], [pp.c, K(0), -pp.s / rp_]]
                for i in range(3):
                    ctx.eq(f"Cartesian derivative component {i} == chain rule of the spherical triple", out[i], J[i][0] * d_r + J[i][1] * d_t + J[i][2] * d_p, p.pc, replay=replay, key=key)
    clear_caches(an)


def job_history_rotate(ctx: Ctx):
    """two atomic grids with equal method and degrees but different rotation seeds in one process: the second one's projections use its own directions."""
    an, ag, bg, ut, mg = _mods()
    ctx.encoded(ag.AtomGrid.radial_component_splines)
    import warnings
    warnings.simplefilter("ignore")
    clear_caches(an)
    rg = bg.OneDGrid(np.array([0.5, 1.0, 1.7]), np.array([0.2, 0.3, 0.4]), (0, np.inf))
    bad = []
    for first, second in ((0, 7), (7, 0), (37, 38)):
        g1 = ag.AtomGrid(rg, degrees=[5], rotate=first)
        f1 = np.cos(g1.points[:, 0]) + g1.points[:, 2]
        g1.radial_component_splines(f1)
        g2 = ag.AtomGrid(rg, degrees=[5], rotate=second)
        f2 = np.cos(g2.points[:, 0]) + g2.points[:, 2]
        got = np.array([s_(rg.points) for s_ in g2.radial_component_splines(f2)])
        sph = ut.convert_cart_to_sph(g2.points)
        Y = ut.generate_real_spherical_harmonics(2, sph[:, 1], sph[:, 2])
        want = np.array([[np.sum((f2 * Y[row] * g2.weights)[g2.indices[i]:g2.indices[i + 1]]) / (rg.points[i] ** 2 * rg.weights[i]) for i in range(3)] for row in range(9)])
        if not np.allclose(got, want, rtol=1e-8, atol=1e-10):
            bad.append(dict(first_rotate=first, second_rotate=second, max_error=float(np.max(np.abs(got - want)))))
    (ctx.ok if not bad else ctx.fail)("a second AtomGrid with another rotation seed projects onto harmonics at ITS OWN directions (3 seed pairs)", detail=str(bad[:1]), key="decompose:history-rotate",
                                      replay=(lambda m: (True, dict(first=bad[:1]))), **({} if not bad else dict(model={})))
    ctx.twins_sat += 1
    clear_caches(an)


def _band_limited_case(method, degs, with_zero, rotate, seed=0):
    import warnings
    warnings.simplefilter("ignore")
    from grid.atomgrid import AtomGrid
    from grid.onedgrid import GaussLegendre
    from grid.basegrid import OneDGrid
    from grid.rtransform import BeckeRTransform
    import grid.utils as ut
    rng = np.random.default_rng(seed)
    rg = BeckeRTransform(0.0 if False else 1e-3, 1.3).transform_1d_grid(GaussLegendre(len(degs)))
    pts, w = rg.points.copy(), rg.weights.copy()
    if with_zero == "tiny":
        pts[0] = 1e-9          # a node that is tiny but not at the origin: its shell is rotated like every other one
    elif with_zero:
        pts[0]=0.0
    rg = OneDGrid(pts, w, (0,np.inf))
    c = np.array([0.3,-0.2,0.5])
    ag = AtomGrid(rg, degrees=degs, center=c, rotate=rotate, method=method)
    L = min(ag.degrees)//2
    nlm=(L+1)**2
    co = rng.normal(size=(nlm,3))
    g = lambda r: (co[:,0,None]+co[:,1,None]*r+co[:,2,None]*r*r)*np.exp(-r)[None,:]*(np.where(np.arange(nlm)[:,None]>0, r[None,:], 1.0) if with_zero != 'tiny' else 1.0)  # g_lm(0)=0 for l>0 (a tiny non-zero node keeps O(1) anisotropic content)
    def f(p):
        sph = ut.convert_cart_to_sph(p, c)
        Y = ut.generate_real_spherical_harmonics(L, sph[:,1], sph[:,2])
        return np.sum(g(sph[:,0])*Y,axis=0)
    fv = f(ag.points)
    out={}
    rad = ag.integrate_angular_coordinates(fv)
    r = rg.points
    out["angular"] = np.max(np.abs(rad - np.sqrt(4*np.pi)*g(r)[0]))
    out["total"] = abs(np.sum(rad*r*r*rg.weights) - ag.integrate(fv))
    spl = ag.radial_component_splines(fv)
    G = g(r)
    out["splines"] = max(np.max(np.abs(spl[k](r) - G[k])) for k in range(nlm))
    out["extra splines zero"] = max([np.max(np.abs(s(r))) for s in spl[nlm:]] + [0.0]) if min(ag.degrees)==max(ag.degrees) else 0.0
    itp = ag.interpolate(fv)
    out["values"] = np.max(np.abs(itp(ag.points) - fv))
    q = c + rng.normal(size=(5,3))*0.4
    out["offgrid vs splines*Y"] = 0.0
    sph = ut.convert_cart_to_sph(q, c); Y = ut.generate_real_spherical_harmonics(ag.l_max//2, sph[:,1], sph[:,2])
    out["offgrid vs splines*Y"] = np.max(np.abs(itp(q) - sum(spl[k](sph[:,0])*Y[k] for k in range(len(spl)))))
    # centre and z axis
    qq = np.array([c, c+[0,0,0.4], c-[0,0,0.7]])
    sph = ut.convert_cart_to_sph(qq, c); Y = ut.generate_real_spherical_harmonics(ag.l_max//2, sph[:,1], sph[:,2])
    out["centre/z-axis"] = np.max(np.abs(itp(qq) - sum(spl[k](sph[:,0])*Y[k] for k in range(len(spl)))))
    sa = ag.spherical_average(fv)
    out["sph-average"] = abs(np.sum(sa(r)*4*np.pi*r*r*rg.weights) - ag.integrate(fv))
    return out


BAND_CASES = (("lebedev", [5, 7, 9, 7, 5, 5], False, 0), ("lebedev", [7] * 6, True, 3), ("maxdet", [6, 6, 8, 10, 8, 6], False, 5), ("spherical", [5, 7, 7, 9, 5, 5], True, 0), ("ahrens_beylkin", [14, 14, 14, 14], False, 2), ("lebedev", [9, 9, 9, 9, 9], "tiny", 11), ("maxdet", [4, 6, 10, 10, 6, 4], True, 0))


def band_limited_oracle():
    tol = {"sph-average": 1e-6}
    bad = {}
    for cfg in BAND_CASES:
        try:
            out = _band_limited_case(*cfg, seed=harness.seed())
        except Exception as ex:
            bad[str(cfg)] = f"{type(ex).__name__}: {str(ex)[:150]}"
            continue
        for k, v in out.items():
            if not v <= (tol.get(k, 1e-9) if cfg[2] != "tiny" else max(tol.get(k, 1e-9), 5e-6)):      # at r = 1e-9 the division by r^2 and the node spacing cost several digits
                bad[f"{cfg}: {k}"] = float(v)
    return bad


def zaxis_derivative_oracle():
    """reported Cartesian derivative of the interpolant at points on the z-axis through the centre vs central differences of the interpolant itself."""
    import warnings
    warnings.simplefilter("ignore")
    from grid.atomgrid import AtomGrid
    from grid.onedgrid import GaussLegendre
    from grid.rtransform import BeckeRTransform
    rg = BeckeRTransform(1e-4, 1.3).transform_1d_grid(GaussLegendre(30))
    c = np.array([0.2, -0.1, 0.3])
    ag = AtomGrid(rg, degrees=[9], center=c)
    f = lambda p: (0.7 + (p[:, 0] - c[0]) - 0.5 * (p[:, 1] - c[1]) + 0.3 * (p[:, 2] - c[2])) * np.exp(-np.sum((p - c) ** 2, axis=1))
    itp = ag.interpolate(f(ag.points))
    out = {}
    for label, q in (("z-axis above the centre", c + np.array([0.0, 0.0, 0.5])), ("z-axis below the centre", c - np.array([0.0, 0.0, 0.4])), ("generic point", c + np.array([0.3, 0.2, 0.5])), ("the centre itself", c.copy())):
        q = q[None, :]
        rep = np.asarray(itp(q, deriv=1), float).ravel()
        h = 1e-5
        fd = np.array([(itp(q + h * np.eye(3)[a]) - itp(q - h * np.eye(3)[a])) / (2 * h) for a in range(3)], float).ravel()
        rad_rep = float(np.asarray(itp(q, deriv=1, only_radial_deriv=True)).ravel()[0])
        u = (q[0] - c) / np.linalg.norm(q[0] - c) if np.linalg.norm(q[0] - c) > 0 else np.array([0.0, 0.0, 1.0])     # the library's convention at r = 0 is theta = phi = 0
        out[label] = dict(reported=rep.tolist(), finite_difference=fd.tolist(), ok=bool(np.allclose(rep, fd, atol=1e-5)), radial_ok=bool(abs(rad_rep - float(fd @ u)) < 1e-5) or "centre" in label)    # no radial direction at r = 0
    return out


def job_zaxis(ctx: Ctx):
    an, ag, bg, ut, mg = _mods()
    ctx.encoded(ag.AtomGrid.interpolate, ut.generate_derivative_real_spherical_harmonics, ut.convert_derivative_from_spherical_to_cartesian)
    with unpatched(an, ag, bg, ut, mg):
        out = zaxis_derivative_oracle()
    for label, r in out.items():
        key = "interpolate:cartesian-derivative:" + ("z-axis" if "z-axis" in label else "centre" if "centre" in label else "generic")
        if r["ok"]:
            ctx.ok(f"float code: reported Cartesian derivative == derivative of the same interpolant ({label})", how="ground enumeration (not a solver obligation)")
        else:
            ctx.fail(f"float code: reported Cartesian derivative == derivative of the same interpolant ({label})", detail=str(r)[:300], key=key, replay=(lambda m, r=r: (True, r)), model={})
        (ctx.ok if r["radial_ok"] else ctx.fail)(f"float code: radial-only derivative == directional derivative of the interpolant ({label})", **(dict(how="ground enumeration (not a solver obligation)") if r["radial_ok"] else
                                                 dict(detail=str(r)[:200], key=key + ":radial", replay=(lambda m, r=r: (True, r)), model={})))
    ctx.twins_sat += 1


def job_band_limited(ctx: Ctx):
    """float code with the shipped angular grids and SciPy splines (the solver jobs stub both): a random function with l <= min_i d_i / 2 on uniform and mixed
    (odd and even) per-shell degrees, four methods, rotation seeds, a node at r = 0 -> exact angular integrals, total, splines through g_lm(r_i), values at the
    grid points, off-grid / centre / z-axis values == splines x harmonics, spherical average.  Ground enumeration."""
    an, ag, bg, ut, mg = _mods()
    ctx.encoded(ag.AtomGrid.integrate_angular_coordinates, ag.AtomGrid.radial_component_splines, ag.AtomGrid.interpolate, ag.AtomGrid.spherical_average)
    with unpatched(an, ag, bg, ut, mg):
        bad = band_limited_oracle()
    (ctx.ok if not bad else ctx.fail)("float code: band-limited functions are recovered exactly (7 grids: 4 methods, odd/even/mixed degrees, rotation, r = 0 node, tiny non-zero node with rotation)", detail=str(bad)[:300], key="band-limited:real",
                                      how="ground enumeration (not a solver obligation)", replay=(lambda m: (True, bad)), **({} if not bad else dict(model={})))
    ctx.twins_sat += 1


def molgrid_real_oracle():
    """float code, real AtomGrids: MolGrid.interpolate(f) == sum over atoms of the interpolant of (w_A f) built on an independently constructed
    copy of that atom's grid; atoms with identical degrees but different rotation seeds, mixed degrees, store on/off, values and derivatives."""
    import warnings
    warnings.simplefilter("ignore")
    from grid.atomgrid import AtomGrid
    from grid.molgrid import MolGrid
    from grid.becke import BeckeWeights
    from grid.onedgrid import GaussLegendre
    from grid.rtransform import BeckeRTransform
    rng = np.random.default_rng(harness.seed() + 9)
    rg = BeckeRTransform(1e-4, 1.2).transform_1d_grid(GaussLegendre(10))
    centers = np.array([[0.0, 0.0, -0.7], [0.0, 0.3, 0.8], [0.9, -0.2, 0.1]])
    bad = {}
    for label, specs, store in (("same degrees, different rotate seeds", [([5] * 10, 0), ([5] * 10, 11)], True), ("same degrees, different rotate seeds (2)", [([5] * 10, 3), ([5] * 10, 4)], True),
                                ("three atoms, two sharing a layout", [([7] * 10, 0), ([5] * 10, 2), ([7] * 10, 9)], True)):
        mk = lambda: [AtomGrid(rg, degrees=d, center=centers[i], rotate=r) for i, (d, r) in enumerate(specs)]
        ats, fresh = mk(), mk()
        nums = np.array([8, 1, 6][:len(specs)])
        mol = MolGrid(nums, ats, BeckeWeights(order=3), store=store)
        c = rng.normal(size=4)
        f = lambda p: np.exp(-0.7 * np.sum(p ** 2, axis=1)) * (c[0] + c[1] * p[:, 0] + c[2] * p[:, 1] * p[:, 2] + c[3] * p[:, 2] ** 2)
        fv = f(mol.points)
        q = rng.normal(size=(4, 3)) * 0.6 + np.array([0.13, 0.21, 0.05])
        for deriv in (0, 1):
            got = mol.interpolate(fv)(q, deriv=deriv)
            want = 0
            for i, a in enumerate(fresh):
                seg = slice(mol.indices[i], mol.indices[i + 1])
                want = want + a.interpolate(fv[seg] * mol.aim_weights[seg])(q, deriv=deriv)
            if not np.allclose(got, want, rtol=1e-9, atol=1e-10):
                bad[f"{label}, deriv={deriv}"] = dict(max_abs_difference=float(np.max(np.abs(got - want))))
    return bad


def job_molgrid_real(ctx: Ctx):
    an, ag, bg, ut, mg = _mods()
    ctx.encoded(mg.MolGrid.interpolate, ag.AtomGrid.interpolate)
    with unpatched(an, ag, bg, ut, mg):
        bad = molgrid_real_oracle()
    (ctx.ok if not bad else ctx.fail)("float code: MolGrid.interpolate == sum of independently built atomic interpolants of w_A f (shared layouts with different rotations, store on/off, deriv 0/1)",
                                      detail=str(bad)[:300], key="MolGrid.interpolate:real", how="ground enumeration (not a solver obligation)", replay=(lambda m: (True, bad)), **({} if not bad else dict(model={})))
    ctx.twins_sat += 1


def job_molgrid(ctx: Ctx):
    an, ag, bg, ut, mg = install()
    e = ctx.engine
    ctx.encoded(mg.MolGrid.interpolate)
    natom = 2
    calls = []

    class FakeAtom:
        def __init__(self, i):
            self.i, self.size = i, 2
            self.center = arr([real(f"C{i}_{a}") for a in range(3)])
            self.points = arr([real(f"P{i}_{k}_{a}") for k in range(2) for a in range(3)], (2, 3))
            self.weights = arr([real(f"W{i}_{k}") for k in range(2)])

        def interpolate(self, vals):
            calls.append((self.i, vals))
            return lambda pts, deriv=0, ds=False, orad=False: arr([Sym(dag.uf(f"I{self.i}", [node_of(v) for v in pts.ravel()] + [dag.const(int(deriv))]))])
    ats = [FakeAtom(i) for i in range(natom)]
    aim = arr([real(f"aim{k}") for k in range(4)])
    f = arr([real(f"f{k}") for k in range(4)])
    q = arr([real("q0"), real("q1"), real("q2")], (1, 3))
    key = "MolGrid.interpolate"
    for p in e.run(lambda: mg.MolGrid(np.array([1, 8]), ats, aim, store=True).interpolate(f)(q, 1)):
        ctx.paths += 1
        if p.exc is not None:
            # the wiring could not be executed on the recording stubs: decided on the float code with real atomic grids instead
            def rp(m):
                import subprocess, json
                out = subprocess.run([sys.executable, "-W", "ignore", "-c", "import json; from harness import C09; print('ORACLE' + json.dumps(C09.molgrid_real_oracle()))"],
                                     capture_output=True, text=True, env=dict(os.environ, PYTHONPATH=f"{harness.VERIF}:{harness.REPO_SRC}"), cwd=harness.VERIF)
                line = [l for l in out.stdout.splitlines() if l.startswith("ORACLE")]
                b_ = json.loads(line[0][6:]) if line else {"oracle process failed": out.stderr[-300:]}
                return (True, b_) if b_ else (None, dict(note="real-code oracle agrees; the stub run raised", raised=f"{type(p.exc).__name__}: {str(p.exc)[:200]}"))
            ctx.fail("MolGrid.interpolate evaluates", f"{type(p.exc).__name__}: {str(p.exc)[:200]}", key=key, model={}, replay=rp)
            continue
        want = K(0)
        for i in range(natom):
            want = want + Sym(dag.uf(f"I{i}", [node_of(v) for v in q.ravel()] + [dag.const(1)]))
        ctx.eq("molecular interpolant == sum_A atomic interpolant", p.result[0], want, p.pc, key=key)
        for i, vals in calls[:natom]:
            for k in range(2):
                ctx.eq(f"atom {i} interpolates w_A f on its own segment (value {k})", vals[k], aim[2 * i + k] * f[2 * i + k], p.pc, key=key)
    ctx.twin(())


def jobs(tier):
    js = [Job("decompose/lebedev/3,3/symbolic-r", job_decompose, "lebedev", [3, 3], False, False), Job("decompose/lebedev/3,3/r0=0", job_decompose, "lebedev", [3, 3], True, False),
          Job("decompose/maxdet/2,4/mixed", job_decompose, "maxdet", [2, 4], False, True), Job("decompose/lebedev/3,5/mixed", job_decompose, "lebedev", [3, 5], False, True),
          Job("history/rotate", job_history_rotate), Job("molgrid", job_molgrid), Job("molgrid/real", job_molgrid_real), Job("ground/band-limited", job_band_limited), Job("ground/z-axis-derivative", job_zaxis)]
    js += [Job(f"interpolate/{m}", job_interpolate, m) for m in ("value", "radial2", "spherical", "cartesian")]
    if tier == "thorough":
        js += [Job("decompose/maxdet/4,2,4/r0=0", job_decompose, "maxdet", [4, 2, 4], True, True), Job("decompose/spherical/3,5", job_decompose, "spherical", [3, 5], False, True)]
    only = os.environ.get("SYMGRID_ONLY")
    return [j for j in js if not only or only in j.name]


def main():
    t0 = time.time()
    res = harness.run_jobs(jobs(harness.tier()))
    return harness.finish(
        PROP, res, t0, "DESIGN.md#c09",
        bounds=dict(grids="2-3 shells, Lebedev 3/5, max-det 2/4, spherical 3/5; uniform and mixed per-shell degrees; a node at r = 0", values="symbolic function value at every grid point (read-only array)",
                    evaluation="one symbolic evaluation point away from the centre and the z-axis", l="l_max//2 <= 2"),
        outside=["exact recovery of band-limited functions with the shipped angular grids and SciPy splines is not a solver question: sampled by the ground jobs ground/band-limited and molgrid/real on the float code",
                 "symbolic evaluation exactly at the centre / on the z-axis (the conversion itself is covered in C08; the reported derivative on the z-axis is sampled by ground/z-axis-derivative and is a known finding)", "the angular-derivative routine (stubbed, see C08)"],
        assumptions=["CubicSpline stub: records (x, y); S_j^(nu)(r) uninterpreted with S_j(x_i) = y_i", "generate_derivative_real_spherical_harmonics as imported by atomgrid.py: uninterpreted arrays",
                     "MolGrid.interpolate job: atomic grids replaced by recording stubs"])


if __name__ == "__main__":
    sys.exit(main())
