"""C06 - atom-in-molecule weights form a partition of unity on every geometry (becke.py, hirshfeld.py).

Assume/guarantee structure: lemma jobs discharge, on the real code, the contracts of the switching polynomial, of the size-adjustment
parameters and of the nu-map; the main jobs run generate_weights / compute_atom_weight / compute_weights / __call__ with the switching
function cut out (an uninterpreted function carrying exactly that contract) and with np.linalg.norm replaced by the metric contract.
"""
import sys, time, os, itertools, math
import numpy as np
from fractions import Fraction
from symgrid import dag, poly, smt, sym, npproxy, harness
from symgrid.sym import Engine, Sym, real, K, node_of, NaNMarker, f_and, f_or, f_not, cmp
from symgrid.harness import Job, Ctx
from harness.C03 import unpatched

PROP = "C06"


def _mods():
    import grid.becke as bk, grid.hirshfeld as hf
    return bk, hf


def arr(vals, shape=None):
    a = np.empty(len(vals), dtype=object)
    a[:] = vals
    return a if shape is None else a.reshape(shape)


# ----------------------------------------------------------------------------- lemma jobs on the real helper functions
def job_lemma_switch(ctx: Ctx, kmax):
    bk, hf = _mods()
    npproxy.install(bk)
    e = ctx.engine
    ctx.encoded(bk.BeckeWeights._switch_func)
    x, y = real("x"), real("y")
    e.assume(x >= -1, x <= 1, y >= -1, y <= 1)
    f = lambda v, k=1: bk.BeckeWeights._switch_func(v, order=k)
    key = "switch_func"

    def rp(m):
        with unpatched(bk):
            xv, yv = float(m.get("x", 0.3)), float(m.get("y", 0.5))
            fx, fy = float(bk.BeckeWeights._switch_func(xv, 1)), float(bk.BeckeWeights._switch_func(yv, 1))
            bad = not (-1 <= fx <= 1) or (xv < yv and not fx < fy) or abs(float(bk.BeckeWeights._switch_func(-xv, 1)) + fx) > 1e-15
            return bad, dict(x=xv, y=yv, f_x=fx, f_y=fy)
    ctx.holds("one step maps [-1,1] into [-1,1]", (f(x) >= -1) & (f(x) <= 1), (), replay=rp, key=key)
    ctx.holds("one step is strictly increasing on [-1,1]", (~(x < y)) | (f(x) < f(y)), (), replay=rp, key=key)
    ctx.eq("one step is odd", f(-x), -f(x), (), replay=rp, key=key)
    ctx.eq("f(1) == 1", f(K(1)), K(1), (), replay=rp, key=key)
    ctx.eq("f(-1) == -1", f(K(-1)), K(-1), (), replay=rp, key=key)
    ctx.holds("f(x) == 1 only at x == 1 and f(x) == -1 only at x == -1", ((~(f(x) == 1)) | (x == 1)) & ((~(f(x) == -1)) | (x == -1)), (), replay=rp, key=key)
    for k in range(2, kmax + 1):
        nested = x
        for _ in range(k):
            nested = f(nested)
        ctx.eq(f"order {k} is the {k}-fold composition of one step (so the one-step contract carries over)", f(x, k), nested, (), replay=rp, key=key)
    ctx.twins_sat += 1


def job_lemma_alpha(ctx: Ctx, n):
    bk, hf = _mods()
    npproxy.install(bk)
    e = ctx.engine
    ctx.encoded(bk.BeckeWeights._calculate_alpha)
    R = arr([real(f"R{i}") for i in range(n)])
    for r in R:
        e.assume(r > 0)
    key = "calculate_alpha"

    def rp(m):
        with unpatched(bk):
            rr = np.array([float(m.get(f"R{i}", 1.0 + i)) for i in range(n)])
            a = bk.BeckeWeights._calculate_alpha(rr)
            return bool(np.any(np.abs(a) > 0.45 + 1e-15) or not np.allclose(a, -a.T) or np.any(np.diag(a) != 0)), dict(radii=rr.tolist(), alpha=a.tolist())
    for p in e.run(lambda: bk.BeckeWeights._calculate_alpha(R)):
        ctx.paths += 1
        if p.exc is not None:
            ctx.fail("_calculate_alpha returns", f"{type(p.exc).__name__}: {p.exc}", key=key, replay=rp, model=ctx.model_for(p.pc) or {})
            continue
        ctx.twin(p.pc)
        a = p.result
        for i in range(n):
            ctx.eq(f"alpha[{i},{i}] == 0", a[i, i], K(0), p.pc, replay=rp, key=key)
            for j in range(n):
                if i != j:
                    ctx.holds(f"|alpha[{i},{j}]| <= 0.45", (a[i, j] <= K(Fraction(9, 20))) & (a[i, j] >= K(Fraction(-9, 20))), p.pc, replay=rp, key=key)
                    ctx.eq(f"alpha[{j},{i}] == -alpha[{i},{j}]", a[j, i], -a[i, j], p.pc, replay=rp, key=key)


def job_lemma_nu(ctx: Ctx):
    e = ctx.engine
    mu, mu2, a = real("mu"), real("mu2"), real("a")
    e.assume(mu >= -1, mu <= 1, mu2 >= -1, mu2 <= 1, a >= K(Fraction(-9, 20)), a <= K(Fraction(9, 20)))
    nu = lambda m: m + a * (1 - m * m)
    key = "nu-map"
    ctx.holds("nu = mu + a(1 - mu^2) stays in [-1, 1]", (nu(mu) >= -1) & (nu(mu) <= 1), (), key=key)
    ctx.holds("nu is strictly increasing in mu", (~(mu < mu2)) | (nu(mu) < nu(mu2)), (), key=key)
    ctx.eq("nu(1) == 1", nu(K(1)), K(1), (), key=key)
    ctx.eq("nu(-1) == -1", nu(K(-1)), K(-1), (), key=key)
    ctx.twins_sat += 1


# ----------------------------------------------------------------------------- main jobs
class Metric:
    """np.linalg.norm replaced by the metric contract: one non-negative symbol per unordered pair of position vectors,
    d(x, x) = 0, symmetry, strictly positive between distinct nuclei, all triangle inequalities."""
    def __init__(self, engine):
        self.e, self.d, self.objs = engine, {}, {}

    def key(self, row):
        ids = tuple(node_of(v).id for v in row)
        neg = tuple(node_of(-v).id for v in row)
        return min(ids, neg)

    def __call__(self, x, axis):
        x = np.asarray(x, dtype=object)
        flat = x.reshape(-1, x.shape[-1])
        out = np.empty(len(flat), dtype=object)
        for i, row in enumerate(flat):
            if all(node_of(v) is dag.ZERO for v in row):
                out[i] = K(0)
                continue
            k = self.key(row)
            if k not in self.d:
                self.d[k] = real(f"d{len(self.d)}")
                self.e.assume(self.d[k] >= 0)
            out[i] = self.d[k]
        return out.reshape(x.shape[:-1])

    def dist(self, u, v):
        row = [u[a] - v[a] for a in range(3)]
        if all(node_of(t) is dag.ZERO for t in row):
            return K(0)
        return self.d[self.key(row)]


def sw_cut(x, order=3):
    """the switching function as an uninterpreted odd function with f(+-1) = +-1 (contract discharged by lemma/switch)."""
    def one(v):
        if isinstance(v, NaNMarker):
            return v
        v = v if isinstance(v, Sym) else K(v)
        if v.n is dag.ONE:
            return K(1)
        if v.n is node_of(K(-1)):
            return K(-1)
        # one function symbol per order: a route that drops or changes the configured order yields a different symbol
        if dag._lead_neg(v.n):
            return -Sym(dag.uf(f"sw{int(order)}", [dag.neg(v.n)]))
        return Sym(dag.uf(f"sw{int(order)}", [v.n]))
    if isinstance(x, np.ndarray):
        out = np.empty(x.shape, dtype=object)
        for idx in np.ndindex(*x.shape):
            out[idx] = one(x[idx])
        return out
    return one(x)


def sw_contract(e, nodes):
    """range / strict monotonicity / fixed points for every sw atom occurring in `nodes`."""
    atoms = [n for n in dag.walk(nodes) if n.op == "uf" and n.args[0].startswith("sw")]
    for a in atoms:
        t, v = Sym(a.args[1][0]), Sym(a)
        e.assume((~((t >= -1) & (t <= 1))) | ((v >= -1) & (v <= 1)))
        e.assume((~(v == 1)) | (t == 1), (~(v == -1)) | (t == -1), (~(t == 1)) | (v == 1), (~(t == -1)) | (v == -1))
        e.assume((~(t > 0)) | (v > 0), (~(t < 0)) | (v < 0))
    for a, b in itertools.combinations(atoms, 2):
        if a.args[0] != b.args[0]:
            continue
        ta, tb, va, vb = Sym(a.args[1][0]), Sym(b.args[1][0]), Sym(a), Sym(b)
        e.assume((~(ta < tb)) | (va < vb), (~(ta > tb)) | (va > vb), (~(ta == tb)) | (va == vb))
    return atoms


ELEMENTS = {2: [1, 8], 3: [8, 1, 1], 4: [6, 1, 9, 2], 5: [6, 1, 8, 10, 17]}       # includes He / Ne (no Bragg radius: fallback branch)


class real_switch_func:
    def __enter__(self):
        bk, hf = _mods()
        self.saved = bk.BeckeWeights.__dict__["_switch_func"]
        bk.BeckeWeights._switch_func = staticmethod(REAL_SWITCH[0])

    def __exit__(self, *a):
        bk, hf = _mods()
        bk.BeckeWeights._switch_func = self.saved


REAL_SWITCH = [None]


def make_replay(natom, npts, order, what, elements=None):
    def replay(m):
        bk, hf = _mods()
        with unpatched(bk), real_switch_func():
            rng = np.random.default_rng(5)
            g = lambda n, d: float(m.get(n, d))
            A = np.array([[g(f"A{i}_{a}", rng.normal() * 1.5) for a in range(3)] for i in range(natom)])
            P = np.array([[g(f"p{j}_{a}", rng.normal() * 1.5) for a in range(3)] for j in range(npts)])
            nums = np.array(elements or ELEMENTS[natom])
            b = bk.BeckeWeights(order=order)
            import warnings
            warnings.simplefilter("ignore")
            W = np.array([b.compute_atom_weight(P, A, nums, k) for k in range(natom)])
            info = dict(atoms=A.tolist(), atnums=nums.tolist(), points=P.tolist(), weights=W.tolist())
            if what == "sum":
                return bool(np.any(np.abs(W.sum(axis=0) - 1) > 1e-10)), info
            if what == "range":
                return bool(np.any(W < -1e-12) or np.any(W > 1 + 1e-12)), info
            if what == "select":
                n_ = len(P)
                bad_ = False
                for k in range(natom):
                    for sel in (k, [k]):
                        got = b.generate_weights(P, A, nums, select=sel)
                        if not np.allclose(got, W[k], rtol=1e-12, atol=1e-14):
                            bad_ = True
                            info.update(select=sel, returned=got.tolist(), per_atom=W[k].tolist())
                if n_ >= 2:
                    got = b.generate_weights(P, A, nums, select=[natom - 1, 0], pt_ind=[0, 1, n_])
                    ref_ = np.concatenate([W[natom - 1, :1], W[0, 1:]])
                    if not np.allclose(got, ref_, rtol=1e-12, atol=1e-14):
                        bad_ = True
                        info.update(select=[natom - 1, 0], returned=got.tolist(), expected=ref_.tolist())
                return bad_, info
            if what == "nuclei":
                Wn = np.array([b.compute_atom_weight(A, A, nums, k) for k in range(natom)])
                info.update(weights_at_nuclei=Wn.tolist())
                return bool(np.any(np.abs(Wn - np.eye(natom)) > 1e-10) or np.any(~np.isfinite(Wn))), info
            if what == "history":
                A2 = A.copy()
                b2 = bk.BeckeWeights(order=order)
                b2.generate_weights(P, A2, nums, select=0)
                A2[0, 0] += float(m.get("shift", 0.75))
                second = b2.generate_weights(P, A2, nums, select=0)
                fresh = bk.BeckeWeights(order=order).generate_weights(P, A2.copy(), nums, select=0)
                info.update(edited_atoms=A2.tolist(), same_instance=second.tolist(), fresh_instance=fresh.tolist())
                return not np.allclose(second, fresh, rtol=1e-12, atol=1e-14), info
            if what == "routes":
                # every segmentation of the points into consecutive atom segments
                bad = False
                for cuts in itertools.combinations_with_replacement(range(npts + 1), natom - 1):
                    ind = np.array([0, *cuts, npts])
                    ref = np.concatenate([W[k, ind[k]:ind[k + 1]] for k in range(natom)])
                    for route in (lambda: b(P, A, nums, ind), lambda: b.generate_weights(P, A, nums, pt_ind=ind), lambda: b.compute_weights(P, A, nums, pt_ind=ind)):
                        try:
                            got = route()
                        except Exception as ex:
                            info["raised"] = f"{type(ex).__name__}: {ex}"
                            return True, info
                        if got.shape != ref.shape or not np.allclose(got, ref, rtol=1e-12, atol=1e-14):
                            bad = True
                            info.update(indices=ind.tolist(), route_result=got.tolist(), per_atom_reference=ref.tolist())
                return bad, info
        return None, {}
    return replay


def job_main(ctx: Ctx, natom, npts, order, with_nuclei=True, elements=None):
    bk, hf = _mods()
    e = ctx.engine
    metric = Metric(e)
    npproxy.install(bk, norm_stub=metric)
    ctx.encoded(bk.BeckeWeights.generate_weights, bk.BeckeWeights.compute_atom_weight, bk.BeckeWeights.compute_weights, bk.BeckeWeights.__call__)
    real_switch = bk.BeckeWeights.__dict__["_switch_func"].__func__
    REAL_SWITCH[0] = real_switch
    bk.BeckeWeights._switch_func = staticmethod(sw_cut)
    A = arr([real(f"A{i}_{a}") for i in range(natom) for a in range(3)], (natom, 3))
    nuc = min(natom, 2) if with_nuclei else 0
    P = np.empty((npts + nuc, 3), dtype=object)
    for j in range(npts):
        for a in range(3):
            P[j, a] = real(f"p{j}_{a}")
    for k in range(nuc):          # evaluation points sitting exactly on nuclei
        P[npts + k] = A[k]
    nums = np.array(elements or ELEMENTS[natom])
    ntot = npts + nuc
    ctx.bounds.update(dict(atoms=natom, atnums=nums.tolist(), points=npts, nuclei_as_points=nuc, order=order))
    key = f"becke:N={natom}"
    b = bk.BeckeWeights(order=order)

    def body():
        return [b.compute_atom_weight(P, A, nums, k) for k in range(natom)]
    paths = e.run(body)
    assert len(paths) == 1, "weights are branch-free"
    p = paths[0]
    ctx.paths += 1
    Rsum, Rrng, Rrt = make_replay(natom, npts, order, "sum", elements), make_replay(natom, npts, order, "range", elements), make_replay(natom, npts, order, "routes", elements)
    if p.exc is not None:
        ctx.fail("compute_atom_weight returns", f"{type(p.exc).__name__}: {str(p.exc)[:160]}", key=key + ":raises", replay=Rsum, model={})
        return
    W = p.result
    # metric contract on everything the code asked for
    objs = [("A", i, A[i]) for i in range(natom)] + [("p", j, P[j]) for j in range(npts)]
    for (t1, i1, u), (t2, i2, v) in itertools.combinations(objs, 2):
        if t1 == "A" and t2 == "A":
            e.assume(metric.dist(u, v) > 0)
    for x_, y_, z_ in itertools.permutations(objs, 3):
        try:
            e.assume(metric.dist(x_[2], z_[2]) <= metric.dist(x_[2], y_[2]) + metric.dist(y_[2], z_[2]))
        except KeyError:
            pass
    atoms = sw_contract(e, [node_of(W[k][j]) for k in range(natom) for j in range(ntot)])
    ctx.note(f"{len(atoms)} switching-function atoms, {len(metric.d)} distance symbols")
    ctx.twin(())
    for j in range(ntot):
        tot = K(0)
        for k in range(natom):
            tot = tot + W[k][j]
        ctx.eq(f"point {j}: sum_A w_A == 1", tot, K(1), (), replay=Rsum, key=key + ":sum")
        if natom <= 3:
            ren = None
            if j >= 1 and j < npts:
                try:
                    ren = {node_of(metric.dist(P[j], A[i])): node_of(metric.dist(P[0], A[i])) for i in range(natom)}
                except KeyError:
                    ren = None
            for k in range(natom):
                if ren is not None and dag.subst(node_of(W[k][j]), ren) is node_of(W[k][0]):
                    # the weight at point j is the very same expression in that point's own distances as the weight at point 0 (decided above for
                    # all distances satisfying the contract): the range follows by instantiation, without burdening the solver with both points
                    ctx.ok(f"point {j}: 0 <= w_{k} <= 1 (same expression as point 0 up to renaming the point's distances)", how="syntactic")
                    continue
                ctx.holds(f"point {j}: 0 <= w_{k} <= 1", (W[k][j] >= 0) & (W[k][j] <= 1), (), replay=Rrng, key=key + ":range")
    for k in range(nuc):
        for a_ in range(natom):
            ctx.eq(f"w_{a_}(nucleus {k}) == {int(a_ == k)}", W[a_][npts + k], K(int(a_ == k)), (), replay=make_replay(natom, npts, order, "nuclei", elements), key=key + ":nuclei")
    # all evaluation routes, every segmentation of the points into consecutive atom segments
    for cuts in itertools.combinations_with_replacement(range(ntot + 1), natom - 1):
        ind = np.array([0, *cuts, ntot])
        ref = [W[k][i] for k in range(natom) for i in range(ind[k], ind[k + 1])]
        for label, route in (("__call__", lambda: b(P, A, nums, ind)), ("generate_weights", lambda: b.generate_weights(P, A, nums, pt_ind=ind)),
                             ("compute_weights", lambda: b.compute_weights(P, A, nums, pt_ind=ind))):
            for q in e.run(route):
                if q.exc is not None:
                    ctx.fail(f"{label}(indices={ind.tolist()}) returns", f"{type(q.exc).__name__}: {str(q.exc)[:160]}", key=key + ":routes", replay=Rrt, model={})
                    continue
                got = q.result
                if len(got) != len(ref):
                    ctx.fail(f"{label}(indices={ind.tolist()}) returns one weight per point", detail=str(len(got)), key=key + ":routes", replay=Rrt, model={})
                    continue
                if all(node_of(g_) is node_of(r_) for g_, r_ in zip(got, ref)):
                    ctx.ok(f"{label}(indices={ind.tolist()}) == per-atom evaluation on each segment", how="syntactic")
                else:
                    bad = [i_ for i_, (g_, r_) in enumerate(zip(got, ref)) if node_of(g_) is not node_of(r_) and not poly.is_zero(dag.sub(node_of(g_), node_of(r_)))]
                    if not bad:
                        ctx.ok(f"{label}(indices={ind.tolist()}) == per-atom evaluation on each segment", how="normalisation")
                    else:       # structurally different expressions: confirmed directly on the float code over all segmentations
                        ctx.fail(f"{label}(indices={ind.tolist()}) == per-atom evaluation on each segment", detail=f"differs at positions {bad}", key=key + ":routes", replay=Rrt, model={})
    # selections: one atom for all points (integer and one-element list), and an arbitrary (non-identity) choice of atoms per segment
    sel_cases = [(f"generate_weights(select={k})", (lambda k=k: b.generate_weights(P, A, nums, select=k)), [W[k][i] for i in range(ntot)]) for k in range(natom)]
    sel_cases += [(f"generate_weights(select=[{k}])", (lambda k=k: b.generate_weights(P, A, nums, select=[k])), [W[k][i] for i in range(ntot)]) for k in (natom - 1,)]
    if ntot >= 2:
        k1, k2 = natom - 1, 0
        sel_cases.append((f"generate_weights(select=[{k1}, {k2}], pt_ind=[0, 1, {ntot}])", (lambda: b.generate_weights(P, A, nums, select=[k1, k2], pt_ind=[0, 1, ntot])),
                          [W[k1][0]] + [W[k2][i] for i in range(1, ntot)]))
    for label, route, ref in sel_cases:
        for q in e.run(route):
            if q.exc is not None:
                ctx.fail(f"{label} returns", f"{type(q.exc).__name__}: {str(q.exc)[:160]}", key=key + ":select", replay=Rrt, model={})
                continue
            got = q.result
            okk = len(got) == len(ref) and all(node_of(g_) is node_of(r_) or poly.is_zero(dag.sub(node_of(g_), node_of(r_))) for g_, r_ in zip(got, ref))
            (ctx.ok if okk else ctx.fail)(f"{label} == weights of the selected atoms on their segments", **(dict(how="syntactic") if okk else dict(detail="differs from the per-atom evaluation", key=key + ":select", replay=make_replay(natom, npts, order, "select", elements), model={})))
    # relabelling the atoms permutes the weights
    perm = list(range(natom))[::-1]
    for q in e.run(lambda: [b.compute_atom_weight(P, A[perm], nums[perm], k) for k in range(natom)]):
        if q.exc is None:
            for k in range(natom):
                for j in range(ntot):
                    ctx.eq(f"relabelled atoms: w'_{k}(p{j}) == w_{perm[k]}(p{j})", q.result[k][j], W[perm[k]][j], (), replay=Rsum, key=key + ":relabel")
    # history on one instance: evaluate, edit the coordinate array in place, evaluate again == fresh instance on the edited geometry
    A2 = A.copy()
    b2 = bk.BeckeWeights(order=order)
    for q in e.run(lambda: (b2.generate_weights(P[:npts], A2, nums, select=0), A2.__setitem__((0, 0), A2[0, 0] + real("shift")), b2.generate_weights(P[:npts], A2, nums, select=0),
                            bk.BeckeWeights(order=order).generate_weights(P[:npts], A2.copy(), nums, select=0))):
        if q.exc is None:
            _, _, second, fresh = q.result
            for j in range(npts):
                ctx.eq(f"after an in-place edit of atcoords the same instance answers for the edited geometry (point {j})", second[j], fresh[j], (),
                       replay=make_replay(natom, npts, order, "history", elements), key=key + ":history")
    bk.BeckeWeights._switch_func = staticmethod(real_switch)


def job_lemma_radii(ctx: Ctx):
    """finite table: for every atomic number 1..86, on both code paths (generate_weights and compute_atom_weight), the radius handed to the
    size-adjustment is finite, positive, and is the element's own Bragg radius or - where that is undefined - that of Z-1, else Z-2; the same
    with a user dictionary containing two consecutive undefined entries.  Ground enumeration (no symbolic input)."""
    bk, hf = _mods()
    import warnings
    warnings.simplefilter("ignore")
    ctx.encoded(bk.BeckeWeights.generate_weights, bk.BeckeWeights.compute_atom_weight, bk.BeckeWeights.__init__)
    with unpatched(bk):
        seen = []
        real_alpha = bk.BeckeWeights.__dict__["_calculate_alpha"].__func__

        def rec(radii, cutoff=0.45):
            seen.append(np.array(radii, dtype=float))
            return real_alpha(radii, cutoff)
        bk.BeckeWeights._calculate_alpha = staticmethod(rec)
        bad = {}
        try:
            for label, user in (("default table", None), ("user table with Z=30,31 undefined", {30: np.nan, 31: np.nan})):
                b = bk.BeckeWeights(radii=user, order=3)
                tab = dict(b._radii)
                def want(z):
                    for zz in (z, z - 1, z - 2):
                        if zz >= 1 and np.isfinite(tab[zz]) and tab[zz] > 0:
                            return tab[zz]
                    return None
                for z in range(1, 87):
                    if want(z) is None:
                        continue
                    nums = np.array([z, 1])
                    A = np.array([[0.0, 0.0, 0.0], [0.0, 0.0, 1.5]])
                    P = np.array([[0.1, 0.2, 0.3]])
                    for route, call in (("generate_weights", lambda: b.generate_weights(P, A, nums, select=[0], pt_ind=np.array([0, 1]))), ("compute_atom_weight", lambda: b.compute_atom_weight(P, A, nums, 0))):
                        seen.clear()
                        try:
                            call()
                        except Exception as ex:
                            bad[f"{label}: Z={z} {route}"] = f"{type(ex).__name__}: {ex}"
                            continue
                        if not seen or not np.isfinite(seen[-1]).all() or abs(seen[-1][0] - want(z)) > 1e-12 or abs(seen[-1][1] - tab[1]) > 1e-12:
                            bad[f"{label}: Z={z} {route}"] = dict(radii_used=(seen[-1].tolist() if seen else None), expected=[want(z), tab[1]])
        finally:
            bk.BeckeWeights._calculate_alpha = staticmethod(real_alpha)
    (ctx.ok if not bad else ctx.fail)("radius used for every element 1..86 is finite: own Bragg radius, else that of Z-1, else Z-2 (both routes, default and user table)", detail=str(bad)[:400],
                                      key="becke:radii", how="ground enumeration (not a solver obligation)", replay=(lambda m: (True, dict(list(bad.items())[:6]))), **({} if not bad else dict(model={})))
    ctx.twins_sat += 1


def job_hirshfeld(ctx: Ctx, natom):
    bk, hf = _mods()
    e = ctx.engine
    metric = Metric(e)
    npproxy.install(hf, norm_stub=metric)
    ctx.encoded(hf.HirshfeldWeights.__call__, hf.HirshfeldWeights.generate_proatom)
    hf.HirshfeldWeights._get_proatom_density = staticmethod(lambda num, dist: arr([Sym(dag.uf(f"rho{int(num)}", [node_of(d)])) for d in np.asarray(dist, dtype=object).ravel()]))
    npts = 3
    A = arr([real(f"A{i}_{a}") for i in range(natom) for a in range(3)], (natom, 3))
    P = arr([real(f"p{j}_{a}") for j in range(npts) for a in range(3)], (npts, 3))
    nums = np.array([1, 8, 6][:natom])
    key = "hirshfeld"
    ctx.bounds.update(dict(atoms=natom, points=npts, segmentations="all, including empty segments"))
    h = hf.HirshfeldWeights()

    def rp(m):
        with unpatched(hf):
            rng = np.random.default_rng(2)
            Af = rng.normal(size=(natom, 3))
            Pf = rng.normal(size=(npts, 3))
            bad = False
            info = {}
            saved = hf.HirshfeldWeights._get_proatom_density
            try:
                import importlib
                importlib.reload(hf)
                hh = hf.HirshfeldWeights()
                for cuts in itertools.combinations_with_replacement(range(npts + 1), natom - 1):
                    ind = np.array([0, *cuts, npts])
                    got = hh(Pf, Af, nums, ind)
                    rho = np.array([hf.HirshfeldWeights.generate_proatom(Pf, Af[k], nums[k]) for k in range(natom)])
                    want = np.concatenate([rho[k, ind[k]:ind[k + 1]] / rho.sum(axis=0)[ind[k]:ind[k + 1]] for k in range(natom)])
                    if not np.allclose(got, want, rtol=1e-12):
                        bad = True
                        info = dict(indices=ind.tolist(), returned=got.tolist(), density_share=want.tolist())
            finally:
                pass
            return bad, info
    for cuts in itertools.combinations_with_replacement(range(npts + 1), natom - 1):
        ind = np.array([0, *cuts, npts])
        for q in e.run(lambda: h(P, A, nums, ind)):
            ctx.paths += 1
            if q.exc is not None:
                ctx.fail(f"HirshfeldWeights(indices={ind.tolist()}) returns", f"{type(q.exc).__name__}: {str(q.exc)[:160]}", key=key + ":raises", replay=rp, model={})
                continue
            got = q.result
            for k in range(natom):
                for i in range(ind[k], ind[k + 1]):
                    try:
                        rho = [Sym(dag.uf(f"rho{int(nums[b_])}", [node_of(metric.dist(P[i], A[b_]))])) for b_ in range(natom)]
                    except KeyError:
                        ctx.fail(f"indices={ind.tolist()}: the pro-atom density of every atom is evaluated at point {i}", detail="a pro-atom was never evaluated there", key=key, replay=rp, model={})
                        continue
                    ctx.eq(f"indices={ind.tolist()}: weight[{i}] == rho_{k}/sum_B rho_B (pro-atom density share of the owning atom)", got[i], rho[k] / sum(rho, K(0)), (), replay=rp, key=key)
    ctx.twins_sat += 1


def jobs(tier):
    js = [Job("lemma/switch", job_lemma_switch, 3 if tier == "quick" else 5), Job("lemma/alpha/2", job_lemma_alpha, 2), Job("lemma/alpha/3", job_lemma_alpha, 3), Job("lemma/nu", job_lemma_nu)]
    js += [Job("main/N=2/order=3", job_main, 2, 2, 3), Job("main/N=3/order=3", job_main, 3, 1, 3), Job("main/N=4/chunked", job_main, 4, 3, 1, False)]
    js += [Job("lemma/radii", job_lemma_radii), Job("main/N=2/He-H/order=2", job_main, 2, 1, 2, True, [2, 1]), Job("main/N=2/Rn-O/order=1", job_main, 2, 1, 1, True, [86, 8])]
    js += [Job("hirshfeld/2", job_hirshfeld, 2), Job("hirshfeld/3", job_hirshfeld, 3)]
    if tier == "thorough":
        js += [Job("main/N=3/Ne-H-Ar/order=4", job_main, 3, 1, 4, True, [10, 1, 18]), Job("main/N=2/order=5", job_main, 2, 3, 5), Job("main/N=3/2pts", job_main, 3, 2, 3), Job("main/N=5/chunked", job_main, 5, 3, 2, False), Job("lemma/alpha/4", job_lemma_alpha, 4)]
    only = os.environ.get("SYMGRID_ONLY")
    return [j for j in js if not only or only in j.name]


def main():
    t0 = time.time()
    res = harness.run_jobs(jobs(harness.tier()))
    return harness.finish(
        PROP, res, t0, "DESIGN.md#c06",
        bounds=dict(atoms="2-4 (quick) / 2-5, element sets incl. He/Ne/Ar (undefined Bragg radius fallback)", points="1-3 symbolic points + the nuclei themselves as evaluation points",
                    order="switching orders 1, 2, 3 (quick) + 4, 5 (thorough) in the main jobs (one function symbol per order, so a route that drops the configured order is seen); 1-5 in the lemma", segmentations="every segmentation of the points into consecutive atom segments (incl. empty), chunking active from N=4"),
        outside=["the Euclidean realisation of the metric contract (triangle inequality of the real norm)", "rounding near mu = +-1", "0 <= w <= 1 for N >= 4 (z3 returns unknown; sum-to-one, nuclei values and route equality are decided up to N = 4/5)"],
        assumptions=["np.linalg.norm replaced by the metric contract (non-negative, symmetric, zero on identical vectors, positive between nuclei, triangle inequalities)",
                     "switching function cut: uninterpreted odd function with range [-1,1], strictly increasing, f(+-1) = +-1 - discharged on the real _switch_func by lemma/switch",
                     "Hirshfeld pro-atom splines: uninterpreted functions of the distance"])


if __name__ == "__main__":
    sys.exit(main())
