"""driver: python -m harness.main <ID> [--tier quick|thorough] [--replay file]"""
import importlib, json, os, sys, time


def main(argv):
    if not argv:
        print("usage: check <property-id> [--tier quick|thorough] [--replay file] [--only substr]")
        return 2
    prop = argv[0]
    args = argv[1:]
    if "--tier" in args:
        os.environ["VERIF_TIER"] = args[args.index("--tier") + 1]
    os.environ.setdefault("VERIF_TIER", "quick")
    if "--only" in args:
        os.environ["SYMGRID_ONLY"] = args[args.index("--only") + 1]
    if "--replay" in args:
        path = args[args.index("--replay") + 1]
        rec = json.load(open(path))
        print(json.dumps(rec, indent=1)[:4000])
        os.environ["SYMGRID_ONLY"] = rec["job"]
    mod = importlib.import_module(f"harness.{prop}")
    return mod.main()


if __name__ == "__main__":
    sys.exit(main(sys.argv[1:]))
