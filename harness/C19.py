"""C19 - caches and remembered parameters never change what a later call returns (angular.py caches, rtransform scale b, coulomb table).

Histories (words over an operation alphabet) are enumerated; every value a caller writes into a previously returned array is a fresh
SYMBOL, the shipped file contents are exact constants.  After the word a fresh grid is observed: if any returned array aliases a cache
entry (or any earlier call leaks into a later one) the observation contains a symbol / a different constant and the obligation
`observed == shipped constant` is refuted by the solver with a concrete written value, which is replayed on the float code.
"""
import sys, time, os, itertools, json
import numpy as np
from fractions import Fraction
from symgrid import dag, poly, smt, sym, npproxy, harness
from symgrid.sym import Engine, Sym, real, K, node_of, PI
from symgrid.harness import Job, Ctx
from harness.C03 import unpatched

PROP = "C19"
CASES = {          # focus (method, degree) -> other (method, degree) sharing the same degree key where the tables allow it
    "lebedev": (("lebedev", 3), ("spherical", 3)),
    "spherical": (("spherical", 3), ("lebedev", 3)),
    "maxdet": (("maxdet", 2), ("lebedev", 5)),
    "ahrens_beylkin": (("ahrens_beylkin", 14), ("maxdet", 14)),
    "maxdet14": (("maxdet", 14), ("ahrens_beylkin", 14)),
}
OPS = ["C_on", "C_off", "C_other", "Wp", "Ww", "Atom", "Shell", "Integrate", "AtomRot"]


def _mods():
    import grid.angular as an, grid.atomgrid as ag, grid.basegrid as bg
    return an, ag, bg


class Lifted(dict):
    pass


def load_hook(npz, *a):
    out = Lifted()
    for k in npz.files:
        a = np.asarray(npz[k])
        out[k] = npproxy.lift(a) if a.dtype.kind == "f" else a         # integer tables (shell counts, sizes) stay integers
    out.files = list(npz.files)
    return out


def clear_caches(an):
    for c in (an.LEBEDEV_CACHE, an.SPHERICAL_CACHE, an.MAX_DET_CACHE, an.AHRENS_BEYLKIN_CACHE):
        c.clear()


def raw_grid(method, degree):
    """shipped data read with plain NumPy, normalised as documented (4 pi for lebedev / spherical)."""
    import grid, re
    an, ag, bg = _mods()
    d, n = an.AngularGrid._get_degree_and_size(degree=degree, size=None, method=method)
    sub = {"lebedev": "lebedev", "spherical": "spherical_design", "maxdet": "maxdet", "ahrens_beylkin": "ahrens_beylkin"}[method]
    data = np.load(os.path.join(os.path.dirname(grid.__file__), "data", sub, f"{method}_{d}_{n}.npz"))
    pts, w = np.asarray(data["points"]), np.asarray(data["weights"])
    if len(w) == 1:
        w = np.ones(len(pts)) * w
    return pts, w, method in ("lebedev", "spherical")


def run_word(word, focus, other, mods, symbolic, values=None):
    """execute a history on the (real) code; returns the observation (fresh grids) and the list of written symbols."""
    an, ag, bg = mods
    clear_caches(an)
    written = []
    vals = iter(values or [])

    def fresh():
        if symbolic:
            v = real(f"t{len(written)}")
        else:
            v = next(vals, 123.0 + len(written))
        written.append(v)
        return v

    def rg():
        if symbolic:
            a = np.empty(2, dtype=object)
            a[:] = [real("r0"), real("r1")]
            b = np.empty(2, dtype=object)
            b[:] = [real("rw0"), real("rw1")]
        else:
            a, b = np.array([0.5, 1.5]), np.array([0.25, 0.75])
        return bg.OneDGrid(a, b, (0, np.inf))
    last, atom = None, None
    import warnings
    warnings.simplefilter("ignore")
    for op in word:
        if op == "C_on":
            last = an.AngularGrid(degree=focus[1], method=focus[0], cache=True)
        elif op == "C_off":
            last = an.AngularGrid(degree=focus[1], method=focus[0], cache=False)
        elif op == "C_other":
            last = an.AngularGrid(degree=other[1], method=other[0], cache=True)
        elif op == "Wp" and last is not None:
            last.points[0, 0] = fresh()
            last.points[-1, 2] = fresh()
        elif op == "Ww" and last is not None:
            last.weights[0] = fresh()
        elif op in ("Atom", "AtomRot"):
            atom = ag.AtomGrid(rg(), degrees=[focus[1], focus[1]], method=focus[0], rotate=0 if op == "Atom" else 7)
            atom.weights[0] = fresh()
            atom._points[0, 0] = fresh()
        elif op == "Shell" and atom is not None:
            sgrid = atom.get_shell_grid(0)
            sgrid.points[0, 0] = fresh()
            sgrid.weights[0] = fresh()
            last = sgrid
        elif op == "Integrate" and last is not None:
            last.integrate(np.ones(last.size) if not symbolic else npproxy.lift(np.ones(last.size)))
    obs = {}
    g1 = an.AngularGrid(degree=focus[1], method=focus[0], cache=True)
    g2 = an.AngularGrid(degree=focus[1], method=focus[0], cache=False)
    a1 = ag.AtomGrid(rg(), degrees=[focus[1]], method=focus[0])
    obs["on"] = (g1.points, g1.weights, g1.degree, g1.size)
    obs["off"] = (g2.points, g2.weights, g2.degree, g2.size)
    obs["atom"] = (a1._points, a1.weights)
    return obs, written


def job_angular(ctx: Ctx, case, first_ops, maxlen):
    an, ag, bg = _mods()
    for mod in (an, ag, bg):
        npproxy.install(mod, load_hook=load_hook)
    focus, other = CASES[case]
    ctx.encoded(an.AngularGrid.__init__, an.AngularGrid._load_precomputed_angular_grid, ag.AtomGrid._generate_atomic_grid, ag.AtomGrid.get_shell_grid)
    ctx.bounds.update(dict(focus=focus, other=other, first_ops=first_ops, max_history=maxlen, alphabet=OPS))
    P, W, fourpi = raw_grid(*focus)
    expP = npproxy.lift(P)
    expW = npproxy.lift(W)
    if fourpi:
        expW = expW * 4 * PI
    r = [real("r0"), real("r1")]
    rw = [real("rw0"), real("rw1")]
    key = f"angular-cache:{focus[0]}"
    words = []
    for first in first_ops:
        for L in range(0, maxlen):
            for rest in itertools.product(OPS, repeat=L):
                words.append((first,) + rest)
    ctx.bounds["words"] = len(words)

    def make_replay(word):
        def replay(m):
            with unpatched(an, ag, bg):
                vals = [float(m.get(f"t{i}", 123.0 + i)) for i in range(12)]
                # make sure a written value differs from the shipped one
                vals = [v if abs(v) > 5 else v + 100.0 for v in vals]
                obs, _ = run_word(word, focus, other, (an, ag, bg), False, vals)
                clear_caches(an)
                bad = {}
                for k in ("on", "off"):
                    p_, w_, deg, size = obs[k]
                    if p_.shape != P.shape or not np.array_equal(p_, P) or not np.allclose(w_, W * (4 * np.pi if fourpi else 1), rtol=1e-14, atol=0) or size != len(P):
                        bad[k] = dict(shape=list(p_.shape), first_point=np.asarray(p_).ravel()[:3].tolist(), first_weight=float(np.asarray(w_).ravel()[0]), shipped_first_point=P.ravel()[:3].tolist(),
                                      shipped_points=len(P))
                ap, aw = obs["atom"]
                want_ap = np.vstack([P * 0.5, P * 1.5])
                if ap.shape != want_ap.shape or not np.allclose(ap, want_ap, rtol=1e-14, atol=1e-15):
                    bad["atom"] = dict(first_point=np.asarray(ap).ravel()[:3].tolist(), expected=want_ap.ravel()[:3].tolist())
                return bool(bad), dict(history=list(word), focus=focus, written_values=vals[:4], corrupted=bad)
        return replay
    n_ok = 0
    e = ctx.engine
    e.assume(r[0] > 0, r[1] > r[0])
    for word in words:
      for path in e.run(lambda: run_word(word, focus, other, (an, ag, bg), True)):
        ctx.paths += 1
        if path.exc is not None:
            ctx.fail(f"history {'-'.join(word)}: no exception", f"{type(path.exc).__name__}: {str(path.exc)[:150]}", key=key + ":raises", replay=make_replay(word), model=ctx.model_for(path.pc) or {})
            continue
        obs, written = path.result
        R = make_replay(word)
        mism = []
        for k in ("on", "off"):
            p_, w_, deg, size = obs[k]
            if p_.shape != expP.shape or w_.shape != expW.shape or int(size) != len(P):
                ctx.fail(f"history {'-'.join(word)}: fresh AngularGrid(cache={k}) has the shipped number of points", detail=f"{p_.shape} vs {expP.shape}", key=key, replay=R, model={})
                mism = None
                break
            for idx in np.ndindex(*expP.shape):
                if node_of(p_[idx]) is not node_of(expP[idx]):
                    mism.append((f"{k}.points{list(idx)}", p_[idx], expP[idx]))
            for i in range(len(expW)):
                if node_of(w_[i]) is not node_of(expW[i]):
                    mism.append((f"{k}.weights[{i}]", w_[i], expW[i]))
        if mism is None:
            continue
        ap, aw = obs["atom"]
        n0 = len(expW)
        if ap.shape != (2 * n0, 3) or aw.shape != (2 * n0,):
            ctx.fail(f"history {'-'.join(word)}: fresh AtomGrid has 2 shells of the shipped size", detail=str(ap.shape), key=key, replay=R, model={})
            continue
        for sh in (0, 1):
            for idx in np.ndindex(*expP.shape):
                want = expP[idx] * r[sh]
                got = ap[sh * n0 + idx[0], idx[1]]
                if node_of(got) is not node_of(want):
                    mism.append((f"atom.points[{sh * n0 + idx[0]},{idx[1]}]", got, want))
            for i in range(n0):
                want = expW[i] * rw[sh] * r[sh] ** 2
                if node_of(aw[sh * n0 + i]) is not node_of(want):
                    mism.append((f"atom.weights[{sh * n0 + i}]", aw[sh * n0 + i], want))
        if not mism:
            n_ok += 1
            ctx.ok(f"history {'-'.join(word)}: fresh AngularGrid (cache on/off) and AtomGrid equal the shipped constants for every written value", how="syntactic")
            continue
        for label, got, want in mism[:4]:
            ctx.eq(f"history {'-'.join(word)}: {label} == shipped constant (for every value written by the caller)", got, want, (), replay=R, key=key)
    ctx.ok(f"{n_ok} histories: every element of the fresh AngularGrid (cache on and off) and AtomGrid is syntactically the shipped constant", how="syntactic")
    ctx.twins_sat += 1
    clear_caches(an)


# ----------------------------------------------------------------------------- radial transforms: inferred scale b, call order, result aliasing
def job_transform(ctx: Ctx, clsname):
    import grid.rtransform as rt
    npproxy.install(rt)
    e = ctx.engine
    ctx.encoded(getattr(rt, clsname))
    rmin, rmax, b = real("rmin"), real("rmax"), real("b")
    e.assume(rmin > 0, rmax > rmin, b > 0)
    xs = [real(f"x{i}") for i in range(3)]
    ys = [real(f"y{i}") for i in range(3)]
    for v in xs + ys:
        e.assume(v >= K(Fraction(1, 1000)))
    e.assume(b >= K(Fraction(1, 1000)))
    e.assume(xs[0] < xs[1], xs[1] < xs[2])
    key = f"transform-state:{clsname}"
    meths = ["transform", "deriv", "inverse"]
    ctx.bounds.update(dict(cls=clsname, histories="all sequences of <= 3 calls from transform/deriv/inverse on two arrays, with in-place edits of returned arrays and of the argument in between"))

    def A(vals):
        a = np.empty(len(vals), dtype=object)
        a[:] = vals
        return a

    def replay_factory(seq, explicit_b):
        def replay(m):
            with unpatched(rt):
                g = lambda n, d: float(m.get(n, d))
                P = (g("rmin", 0.1), g("rmax", 10.0))
                X = np.array([g(f"x{i}", 0.5 + i) for i in range(3)])
                Y = np.array([g(f"y{i}", 0.3 + 0.4 * i) for i in range(3)])
                bb = g("b", 3.0) if explicit_b else None
                tf = getattr(rt, clsname)(P[0], P[1], bb)
                ref = getattr(rt, clsname)(P[0], P[1], bb if explicit_b else float(X.max()))
                xarr, yarr = X.copy(), Y.copy()
                if not explicit_b:
                    tf.transform(xarr)
                out = None
                for step in seq:
                    if step[0] == "call":
                        out = getattr(tf, step[1])(xarr if step[2] == "x" else yarr)
                    elif step[0] == "scale_result" and out is not None and isinstance(out, np.ndarray):
                        out *= 2.0
                    elif step[0] == "shift_arg":
                        yarr += 0.5
                got = tf.transform(yarr)
                want = ref.transform(yarr.copy())
                return not np.allclose(got, want, rtol=1e-13), dict(cls=clsname, sequence=[list(s) for s in seq], explicit_b=explicit_b, returned=np.asarray(got).tolist(), fresh_object=np.asarray(want).tolist())
        return replay
    steps = [("call", mname, which) for mname in meths for which in ("x", "y")] + [("scale_result",), ("shift_arg",)]
    seqs = [s for L in (1, 2, 3) for s in itertools.product(steps, repeat=L)]
    if harness.tier() == "quick":
        seqs = [s for s in seqs if len(s) <= 2] + [s for s in seqs if len(s) == 3 and s[0][0] == "call" and s[0][1] == "transform" and s[1][0] != "call"]
    n_ok = 0
    for explicit_b in (True, False):
        for seq in seqs:
            def body():
                tf = getattr(rt, clsname)(rmin, rmax, b if explicit_b else None)
                xarr, yarr = A(list(xs)), A(list(ys))
                if not explicit_b:
                    tf.transform(xarr)             # fixes the scale to max(x) = x2
                out = None
                for step in seq:
                    if step[0] == "call":
                        out = getattr(tf, step[1])(xarr if step[2] == "x" else yarr)
                    elif step[0] == "scale_result" and out is not None and isinstance(out, np.ndarray):
                        out *= 2
                    elif step[0] == "shift_arg":
                        yarr += K(Fraction(1, 2))
                got = tf.transform(yarr)
                ref = getattr(rt, clsname)(rmin, rmax, b if explicit_b else xs[2])
                want = ref.transform(A(list(yarr)))
                return got, want
            for p in e.run(body):
                ctx.paths += 1
                R = replay_factory(seq, explicit_b)
                if p.exc is not None:
                    ctx.fail(f"sequence {seq}: no exception", f"{type(p.exc).__name__}: {str(p.exc)[:120]}", key=key + ":raises", replay=R, model=ctx.model_for(p.pc) or {})
                    continue
                got, want = p.result
                if all(node_of(a) is node_of(c) for a, c in zip(got, want)):
                    n_ok += 1
                    ctx.ok(f"after {[':'.join(s_) for s_ in seq]} (b {'given' if explicit_b else 'inferred'}): transform(y) == fresh object with the same scale", how="syntactic")
                    continue
                for i in range(3):
                    ctx.eq(f"after {[s[0] + ':' + ':'.join(s[1:]) for s in seq]} (b {'given' if explicit_b else 'inferred'}): transform(y)[{i}] == fresh object with the same scale", got[i], want[i],
                           p.pc, replay=R, key=key)
    ctx.ok(f"{n_ok} call sequences: the observed transform(y) is syntactically the value of a fresh object with the same scale", how="syntactic")
    ctx.twins_sat += 1


# ----------------------------------------------------------------------------- Coulomb parameter table
def job_coulomb(ctx: Ctx):
    import grid.coulomb as co
    ctx.encoded(co.load_atomic_gaussian_params)
    import importlib.resources
    raw = json.load(open(importlib.resources.files("grid.data").joinpath("atomic_gauss_params.json")))
    co._ATOMIC_GAUSS_PARAMS_CACHE = None
    bad = []
    order = list(raw)[:12] + list(raw)[-3:]
    for el in order + order[::-1]:
        c, a = co.load_atomic_gaussian_params(el)
        if list(c) != list(raw[el]["coeffs_s"]) or list(a) != list(raw[el]["alphas_s"]):
            bad.append(el)
        c[...] = -7.0           # the caller edits what it received
        a *= -1.0
    (ctx.ok if not bad else ctx.fail)("load, edit the returned arrays in place, load again (forward and backward over 15 elements): every load returns the shipped values", detail=str(bad[:5]),
                                      key="coulomb-table", replay=(lambda m: (True, dict(elements_corrupted=bad[:5]))), **({} if not bad else dict(model={})))
    co._ATOMIC_GAUSS_PARAMS_CACHE = None


def job_reuse(ctx: Ctx, what):
    """'everything built from it (atomic and molecular grids)': concrete histories on one AtomGrid / MolGrid object of the float code -- every public method is
    called, then called again with different arguments (after in-place edits of what the first call returned), and the second answer must equal the answer of
    a freshly built object that never saw the first call.  One concrete history per method pair (ground enumeration, not a solver obligation)."""
    import warnings
    warnings.simplefilter("ignore")
    from grid.atomgrid import AtomGrid
    from grid.molgrid import MolGrid
    from grid.becke import BeckeWeights
    from grid.onedgrid import GaussLegendre
    from grid.rtransform import BeckeRTransform
    rng = np.random.default_rng(harness.seed() + 19)
    rg = BeckeRTransform(1e-4, 1.3).transform_1d_grid(GaussLegendre(8))
    ctx.encoded(AtomGrid.interpolate, AtomGrid.radial_component_splines, AtomGrid.get_shell_grid, MolGrid.interpolate, MolGrid.get_atomic_grid)
    bad = {}

    def same(a, b):
        if isinstance(a, (list, tuple)):
            return len(a) == len(b) and all(same(x, y) for x, y in zip(a, b))
        if hasattr(a, "points") and hasattr(a, "weights"):
            return np.allclose(a.points, b.points, rtol=1e-12, atol=1e-14) and np.allclose(a.weights, b.weights, rtol=1e-12, atol=1e-14)
        return np.allclose(np.asarray(a, float), np.asarray(b, float), rtol=1e-10, atol=1e-12, equal_nan=True)

    def scribble(x):
        # what a caller may do with returned arrays
        if isinstance(x, np.ndarray) and x.flags.writeable and x.dtype.kind == "f":
            x *= 0.0
        elif isinstance(x, (list, tuple)):
            for y in x:
                scribble(y)
        elif hasattr(x, "points"):
            for a_ in (x.points, x.weights):
                if isinstance(a_, np.ndarray) and a_.flags.writeable:
                    a_ *= 0.0
    if what == "atomgrid":
        mk = lambda: AtomGrid(rg, degrees=[5, 5, 7, 7, 5, 3, 3, 3], center=np.array([0.1, -0.2, 0.3]), rotate=4)
        f1 = lambda g: np.exp(-np.sum((g.points - g.center) ** 2, axis=1)) * (1 + g.points[:, 0])
        f2 = lambda g: np.exp(-0.5 * np.sum((g.points - g.center) ** 2, axis=1)) * (g.points[:, 1] - 0.3 * g.points[:, 2] ** 2)
        q1, q2 = rng.normal(size=(3, 3)) * 0.5, rng.normal(size=(4, 3)) * 0.5
        calls = {"integrate": (lambda g: g.integrate(f1(g)), lambda g: g.integrate(f2(g))),
                 "interpolate": (lambda g: g.interpolate(f1(g))(q1), lambda g: g.interpolate(f2(g))(q2, deriv=1)),
                 "radial_component_splines": (lambda g: [s_(rg.points) for s_ in g.radial_component_splines(f1(g))], lambda g: [s_(rg.points) for s_ in g.radial_component_splines(f2(g))]),
                 "spherical_average": (lambda g: g.spherical_average(f1(g))(rg.points), lambda g: g.spherical_average(f2(g))(rg.points)),
                 "integrate_angular_coordinates": (lambda g: g.integrate_angular_coordinates(f1(g)), lambda g: g.integrate_angular_coordinates(f2(g))),
                 "get_shell_grid": (lambda g: g.get_shell_grid(2), lambda g: [g.get_shell_grid(2), g.get_shell_grid(3, r_sq=False)]),
                 "convert_cartesian_to_spherical": (lambda g: g.convert_cartesian_to_spherical(q1), lambda g: [g.convert_cartesian_to_spherical(q2), g.convert_cartesian_to_spherical()]),
                 "moments": (lambda g: g.moments(2, q1[:1], f1(g), "pure"), lambda g: g.moments(2, q1[:1], f2(g), "pure")),
                 "points/weights": (lambda g: (g.points, g.weights), lambda g: (g.points, g.weights, g.indices, g.degrees))}
    else:
        atn = np.array([8, 1, 1])
        atc = np.array([[0.0, 0.0, 0.2], [0.0, 1.4, -0.9], [0.0, -1.4, -0.9]])
        mk = lambda: MolGrid(atn, [AtomGrid(rg, degrees=[5] * 8, center=c, rotate=r_) for c, r_ in zip(atc, (0, 3, 7))], BeckeWeights(order=3), store=True)
        f1 = lambda g: np.exp(-np.sum(g.points ** 2, axis=1))
        f2 = lambda g: np.exp(-0.5 * np.sum(g.points ** 2, axis=1)) * g.points[:, 1]
        q1, q2 = rng.normal(size=(3, 3)) * 0.7, rng.normal(size=(4, 3)) * 0.7
        calls = {"integrate": (lambda g: g.integrate(f1(g)), lambda g: g.integrate(f2(g))),
                 "interpolate": (lambda g: g.interpolate(f1(g))(q1), lambda g: g.interpolate(f2(g))(q2)),
                 "get_atomic_grid": (lambda g: g.get_atomic_grid(1), lambda g: [g.get_atomic_grid(1), g.get_atomic_grid(2)]),
                 "getitem": (lambda g: g[0], lambda g: [g[0], g[2]]),
                 "points/weights": (lambda g: (g.points, g.weights, g.aim_weights), lambda g: (g.points, g.weights, g.aim_weights, g.atweights, g.indices)),
                 "moments": (lambda g: g.moments(1, q1[:1], f1(g), "cartesian"), lambda g: g.moments(1, q1[:1], f2(g), "cartesian"))}
    names = list(calls)
    OWN_STATE = ("points/weights", "get_atomic_grid", "getitem")
    import copy as _copy
    wants = {}
    for second in names:          # reference answers first, while no returned array has been overwritten yet (module-level caches still pristine)
        try:
            wants[second] = _copy.deepcopy(calls[second][1](mk()))
        except Exception as ex:
            bad[f"reference {second}"] = f"{type(ex).__name__}: {str(ex)[:100]}"
    for first in names:
        for second in names:
            if second not in wants:
                continue
            try:
                g = mk()
                r1 = calls[first][0](g)
                if first not in OWN_STATE:      # .points/.weights and stored atomic grids ARE the object's state: editing them is the caller's own change, not a cache effect
                    scribble(r1)
                got = calls[second][1](g)
                if not same(got, wants[second]):
                    bad[f"{first} -> {second}"] = "second answer differs from a fresh object"
            except Exception as ex:
                bad[f"{first} -> {second}"] = f"{type(ex).__name__}: {str(ex)[:100]}"
    (ctx.ok if not bad else ctx.fail)(f"float code, one {what} object: every ordered pair of {len(names)} methods - first call (its returned arrays then overwritten by the caller), second call == fresh object",
                                      detail=str(bad)[:300], key=f"reuse:{what}", how="ground enumeration (not a solver obligation)", replay=(lambda m: (True, dict(list(bad.items())[:8]))), **({} if not bad else dict(model={})))
    ctx.twins_sat += 1


def jobs(tier):
    js = [Job("reuse/atomgrid", job_reuse, "atomgrid"), Job("reuse/molgrid", job_reuse, "molgrid")]
    maxlen = 3 if tier == "quick" else 4
    for case in ("lebedev", "spherical", "maxdet"):
        for first in OPS[:3] + ["Atom", "AtomRot"]:
            js.append(Job(f"angular/{case}/{first}", job_angular, case, [first], maxlen))
    for case in ("ahrens_beylkin", "maxdet14"):
        for first in ("C_on", "C_other", "C_off"):
            js.append(Job(f"angular/{case}/{first}", job_angular, case, [first], 2 if tier == "quick" else 3))
    for cls in ("LinearInfiniteRTransform", "ExpRTransform", "PowerRTransform"):
        js.append(Job(f"transform/{cls}", job_transform, cls))
    js.append(Job("coulomb-table", job_coulomb))
    only = os.environ.get("SYMGRID_ONLY")
    return [j for j in js if not only or only in j.name]


def main():
    t0 = time.time()
    res = harness.run_jobs(jobs(harness.tier()))
    return harness.finish(
        PROP, res, t0, "DESIGN.md#c19",
        bounds=dict(angular="all histories of length <= 3 (quick) / 4 over the 9-operation alphabet for lebedev/spherical/maxdet (small degrees), length <= 2/3 for the ahrens_beylkin/maxdet pair that shares degree 14",
                    transforms="all sequences of <= 2 (+ selected 3) / 3 steps from {transform, deriv, inverse} x {two arrays} + in-place edits, b given or inferred", coulomb="15 elements, forward and backward, with in-place edits"),
        outside=["histories longer than the bound", "degrees other than the small ones used (the cache code is degree-independent)", "multi-threaded use"],
        assumptions=["np.load of the shipped files returns their contents (read natively, lifted to exact constants)", "Rotation.random(seed) is run natively"])


if __name__ == "__main__":
    sys.exit(main())
