"""C11 - periodic local grids contain every periodic image inside the sphere exactly once (periodicgrid.py)."""
import sys, time, os, itertools, math
import numpy as np
from fractions import Fraction
from symgrid import dag, poly, smt, sym, npproxy, harness
from symgrid.sym import Engine, Sym, real, integer, K, node_of, f_and, f_or, f_not, cmp, TRUE, FALSE
from symgrid.harness import Job, Ctx
from harness.C03 import unpatched
from harness.C10 import StubTree, arr, sym_points

PROP = "C11"


def _mods():
    import grid.periodicgrid as pg, grid.basegrid as bg
    return pg, bg


# concrete rational lattices (rows = lattice vectors); entries are dyadic so the float arrays are exact
LATTICES = {
    "2d-orthogonal": [[1.0, 0.0], [0.0, 2.0]],
    "2d-skewed": [[1.0, 0.0], [0.25, 2.0]],
    "2d-negative": [[-1.0, 0.5], [0.0, -1.5]],
    "2d-one-vector": [[0.5, 1.0]],
    "3d-orthogonal": [[1.0, 0.0, 0.0], [0.0, 1.5, 0.0], [0.0, 0.0, 2.0]],
    "3d-skewed": [[1.0, 0.0, 0.0], [0.5, 1.0, 0.0], [0.25, 0.25, 2.0]],
    "3d-two-vectors": [[1.0, 0.5, 0.0], [0.0, 1.0, 0.5]],
    "3d-one-vector": [[0.5, 0.5, 1.0]],
    "2d-long-short": [[4.0, 0.0], [0.0, 0.25]],
    "3d-negative-skewed": [[-1.0, 0.25, 0.0], [0.0, 1.0, -0.5], [0.5, 0.0, 1.0]],
    "2d-rotated": [[1.0, 1.0], [-1.0, 1.0]],
    "3d-long-short": [[2.0, 0.0, 0.0], [0.0, 0.5, 0.0], [0.0, 0.0, 1.0]],
    "2d-sheared-strong": [[1.0, 0.0], [1.75, 1.0]],
    "3d-fcc": [[0.0, 0.5, 0.5], [0.5, 0.0, 0.5], [0.5, 0.5, 0.0]],
    "2d-obtuse": [[1.0, 0.0], [-0.75, 1.0]],
}


def exact_reciprocal(A):
    """G = (A A^T)^-1 A in exact rational arithmetic (rows g_k with g_k . a_l = delta_kl)."""
    A = [[Fraction(x) for x in row] for row in A]
    k = len(A)
    M = [[sum(a * b for a, b in zip(A[i], A[j])) for j in range(k)] + [Fraction(int(i == j)) for j in range(k)] for i in range(k)]
    for col in range(k):
        piv = next(r for r in range(col, k) if M[r][col] != 0)
        M[col], M[piv] = M[piv], M[col]
        pv = M[col][col]
        M[col] = [x / pv for x in M[col]]
        for r in range(k):
            if r != col and M[r][col] != 0:
                f = M[r][col]
                M[r] = [x - f * y for x, y in zip(M[r], M[col])]
    inv = [row[k:] for row in M]
    return [[sum(inv[i][j] * A[j][d] for j in range(k)) for d in range(len(A[0]))] for i in range(k)]


class Recorder:
    """stands in for the module's `itertools`: records the integer ranges handed to product()."""
    def __init__(self):
        self.ranges = None

    def product(self, *ranges, **kw):
        self.ranges = [list(r) for r in ranges]
        return itertools.product(*ranges, **kw)


class EmptyTree(StubTree):
    def query_ball_point(self, c, r, p=2.0, **k):
        return []


def install(tree):
    pg, bg = _mods()
    rec = Recorder()
    for mod in (pg, bg):
        npproxy.install(mod)
        mod.cKDTree = tree
    pg.itertools = rec
    return pg, bg, rec


def svd_stub(G):
    """contract of np.linalg.svd as PeriodicGrid.__init__ uses it: U diag(1/S) Vt is the reciprocal basis G (G A^T = I)."""
    k = len(G)

    def svd(a, full_matrices=False):
        U = np.empty((k, k), dtype=object)
        for i in range(k):
            for j in range(k):
                U[i, j] = K(int(i == j))
        S = np.ones(k)
        Vt = np.empty((k, len(G[0])), dtype=object)
        for i in range(k):
            for j in range(len(G[0])):
                Vt[i, j] = K(G[i][j])
        return U, S, Vt
    return svd


def build_grid(pg, lattice_name, pts, w, wrap):
    A = LATTICES[lattice_name]
    G = exact_reciprocal(A)
    pg.np.linalg.svd = svd_stub(G)
    import warnings
    warnings.simplefilter("ignore")
    return pg.PeriodicGrid(pts, w, np.array(A), wrap=wrap)


def replay_factory(lattice_name, n, dim, wrap, onedim_sym=False, history=False):
    def replay(m):
        pg, bg = _mods()
        with unpatched(pg, bg):
            import scipy.spatial, warnings
            warnings.simplefilter("ignore")
            pg.cKDTree = bg.cKDTree = scipy.spatial.cKDTree
            real_it = pg.itertools
            pg.itertools = itertools
            try:
                if dim == 0:
                    pts = np.array([float(m.get(f"p{i}", 0.1 * i)) for i in range(n)])
                    A = np.array([float(m.get("a", 1.0))]) if onedim_sym else (None if lattice_name == "none" else np.array([float(LATTICES[lattice_name][0][0])]))
                    ctr = np.array(float(m.get("c0", 0.0)))
                else:
                    pts = np.array([[float(m.get(f"p{i}_{a}", 0.1 * i + 0.05 * a)) for a in range(dim)] for i in range(n)])
                    A = None if lattice_name == "none" else np.array(LATTICES[lattice_name])
                    ctr = np.array([float(m.get(f"c{a}", 0.0)) for a in range(dim)])
                w = np.array([float(m.get(f"w{i}", 1.0 + i)) for i in range(n)])
                rad = float(m.get("r", 0.5))
                info = dict(lattice=lattice_name, realvecs=None if A is None else A.tolist(), points=pts.tolist(), center=np.atleast_1d(ctr).tolist(), radius=rad, wrap=wrap)
                try:
                    g = pg.PeriodicGrid(pts, w, A, wrap=wrap)
                    if history:
                        g.get_localgrid(ctr, rad)
                        w = np.array([float(m.get(f"nw{i}", 7.0 + i)) for i in range(n)])
                        g.weights = w
                    loc = g.get_localgrid(ctr, rad)
                except Exception as ex:
                    info["raised"] = f"{type(ex).__name__}: {ex}"
                    return True, info
                # brute force over a generous box of translations
                P = np.asarray(g.points, float).reshape(n, -1)
                Am = np.zeros((0, P.shape[1])) if A is None else np.asarray(A, float).reshape(-1, P.shape[1])
                L = 8
                want = []
                for nvec in itertools.product(range(-L, L + 1), repeat=len(Am)):
                    shift = np.array(nvec, float) @ Am if len(Am) else np.zeros(P.shape[1])
                    for i in range(n):
                        q = P[i] - shift
                        if np.linalg.norm(q - np.atleast_1d(ctr)) <= rad:
                            want.append((i, tuple(np.round(q, 9))))
                got = [(int(i), tuple(np.round(np.atleast_1d(q), 9))) for i, q in zip(loc.indices, np.asarray(loc.points, float).reshape(len(loc.indices), P.shape[1]))]
                info.update(returned=sorted(got)[:12], expected=sorted(want)[:12])
                bad = sorted(got) != sorted(want) or not np.allclose(loc.weights, w[np.asarray(loc.indices, int)] if len(got) else [])
                return bad, info
            finally:
                pg.cKDTree = bg.cKDTree = StubTree
                pg.itertools = real_it
    return replay


# ----------------------------------------------------------------------------- range lemma (unbounded integer translations, unbounded radius)
class _Stop(Exception):
    pass


def job_range(ctx: Ctx, lattice_name, n, wrap):
    """The two lines of get_localgrid that compute the integer box are executed with symbolic points/centre/radius.  get_localgrid is
    recompiled from its current source with `.astype(int)` removed (ceil/floor values are integers already) and `range` replaced by a
    recorder that stops the call, so the box bounds stay symbolic integers: no enumeration, no bound on the radius."""
    import ast
    pg, bg, rec = install(EmptyTree)
    e = ctx.engine
    ctx.encoded(pg.PeriodicGrid.__init__, pg.PeriodicGrid.get_localgrid)
    A = LATTICES[lattice_name]
    dim, kvec = len(A[0]), len(A)
    pts = sym_points("p", n, dim)
    w = arr([real(f"w{i}") for i in range(n)])
    c = arr([real(f"c{a}") for a in range(dim)])
    r = real("r")
    G = exact_reciprocal(A)
    e.assume(r >= 0)
    ctx.bounds.update(dict(lattice=lattice_name, realvecs=A, points=n, wrap=wrap, radius="any r >= 0", translations="unbounded integers", points_and_centre="unbounded reals"))
    key = f"periodic:range:{lattice_name}"
    R = replay_factory(lattice_name, n, dim, wrap)
    nv = [integer(f"n{kk}") for kk in range(kvec)]
    recorded = []

    def rec_range(lo, hi):
        recorded.append((lo, hi))
        if len(recorded) == kvec:
            raise _Stop()
        return range(0)

    class StripAstype(ast.NodeTransformer):
        def visit_Call(self, node):
            self.generic_visit(node)
            if isinstance(node.func, ast.Attribute) and node.func.attr == "astype" and len(node.args) == 1 and isinstance(node.args[0], ast.Name) and node.args[0].id == "int":
                return node.func.value
            return node
    glg = harness.recompile(pg.PeriodicGrid.get_localgrid, StripAstype(), {"range": rec_range})

    def body():
        g = build_grid(pg, lattice_name, pts, w, wrap)
        del recorded[:]
        try:
            glg(g, c, r)
        except _Stop:
            pass
        return g.points, list(recorded)
    # general Cauchy-Schwarz lemma per lattice direction, over free reals u: (g.u)^2 <= |g|^2 |u|^2, via the Lagrange identity
    u = [real(f"u{a}") for a in range(dim)]
    for kk in range(kvec):
        g = [K(x) for x in G[kk]]
        gu = sum((g[a] * u[a] for a in range(dim)), K(0))
        g2 = sum((g[a] * g[a] for a in range(dim)), K(0))
        u2 = sum((u[a] * u[a] for a in range(dim)), K(0))
        cross = K(0)
        for a in range(dim):
            for b in range(a + 1, dim):
                cross = cross + (g[a] * u[b] - g[b] * u[a]) ** 2
        ctx.eq(f"direction {kk}: Lagrange identity |g|^2|u|^2 - (g.u)^2 == sum of squared 2x2 minors", g2 * u2 - gu * gu, cross, (), key=key + ":lemma")
        ctx.holds(f"direction {kk}: the sum of squares is non-negative", cross >= 0, (), key=key + ":lemma")
    xx, yy = real("xx"), real("yy")
    ctx.holds("for reals x, y >= 0:  x^2 <= y^2  =>  -y <= x <= y", (~((xx * xx <= yy * yy) & (yy >= 0))) | ((xx <= yy) & (xx >= -yy)), (), key=key + ":lemma")
    for p in e.run(body):
        ctx.paths += 1
        if p.exc is not None:
            ctx.fail("box computation raises", f"{type(p.exc).__name__}: {str(p.exc)[:160]}", key=key + ":raises", replay=R, model=ctx.model_for(p.pc) or {})
            continue
        ctx.twin(p.pc)
        P, ranges = p.result
        if len(ranges) != kvec:
            ctx.fail("one integer range per lattice vector", detail=str(len(ranges)), key=key, replay=R, model={})
            continue
        for i in range(n):
            v = []
            d2 = K(0)
            for a in range(dim):
                shift = K(0)
                for kk in range(kvec):
                    shift = shift + nv[kk] * A[kk][a]
                v.append(P[i, a] - shift - c[a])
                d2 = d2 + v[-1] ** 2
            inside = d2 <= r * r
            for kk in range(kvec):
                proj = sum((v[a] * G[kk][a] for a in range(dim)), K(0))
                g2 = sum(Fraction(x) ** 2 for x in G[kk])
                cs = proj * proj <= d2 * g2                      # instance u := v of the lemma proved above
                bound = proj * proj <= r * r * g2
                yk = r * K(dag.QS.sqrt_rat(g2))                 # r * |g_k| = r / spacing_k, exact; yk*yk == r*r*g2 (instance y := yk, x := proj of the lemma above)
                ctx.holds(f"point {i}, direction {kk}: inside the sphere and Cauchy-Schwarz  =>  (g.v)^2 <= |g|^2 r^2", (~inside) | bound, (), assume=[cs, r >= 0], key=key + ":lemma")
                lo, hi = ranges[kk]
                ctx.holds(f"point {i}, direction {kk}: |p - n.A - c| <= r  =>  ilc_min <= n_{kk} <= ilc_max (the enumerated range), for every integer n",
                          (~inside) | ((nv[kk] >= lo) & (nv[kk] + 1 <= hi)), p.pc, assume=[(~inside) | bound, (~bound) | ((proj <= yk) & (proj >= -yk))], replay=R, key=key)


# ----------------------------------------------------------------------------- wiring: exactly the images inside, each once
def job_wiring(ctx: Ctx, lattice_name, n, wrap, onedim=None, history=False):
    """onedim: None (use LATTICES), 'sym' (1-D grid, symbolic lattice vector of either sign), 'none' (no lattice vectors, 1-D / 2-D)."""
    pg, bg, rec = install(StubTree)
    e = ctx.engine
    ctx.encoded(pg.PeriodicGrid.__init__, pg.PeriodicGrid.get_localgrid, bg.LocalGrid.__init__)
    r = real("r")
    e.assume(r >= 0)
    w = arr([real(f"w{i}") for i in range(n)])
    if onedim == "sym":
        dim = 0
        a = real("a")
        e.assume(f_or((a > 0).f, (a < 0).f))
        pts = sym_points("p", n, 0)
        c = arr([real("c0")])
        center = c[0]
        Arows = [[a]]
        # points within 1.1 cells, centre within one cell, radius below 0.6 |a|
        for i in range(n):
            e.assume(pts[i] / a >= 0, pts[i] / a <= K(Fraction(11, 10)))
        e.assume(c[0] / a >= 0, c[0] / a <= 1, r * r <= K(Fraction(9, 25)) * a * a)
        realvecs = arr([a])
        name = "1d-symbolic-vector"
    elif onedim == "none":
        dim = 0 if lattice_name == "1d" else 2
        pts = sym_points("p", n, dim)
        c = arr([real(f"c{k}") for k in range(max(dim, 1))])
        center = c if dim else c[0]
        Arows = []
        realvecs = None
        name = f"no-lattice-{lattice_name}"
    else:
        A = LATTICES[lattice_name]
        dim = len(A[0])
        pts = sym_points("p", n, dim)
        c = arr([real(f"c{k}") for k in range(dim)])
        center = c
        Arows = [[K(x) for x in row] for row in A]
        G = exact_reciprocal(A)
        smin = min(1 / math.sqrt(sum(float(x) ** 2 for x in g)) for g in G)
        e.assume(r <= K(Fraction(smin * 0.45).limit_denominator(64)))
        for i in range(n):
            for kk in range(len(A)):
                f = K(0)
                for a_ in range(dim):
                    f = f + pts[i, a_] * G[kk][a_]
                e.assume(f >= K(Fraction(-1, 4)), f <= K(Fraction(5, 4)))
        for kk in range(len(A)):
            f = K(0)
            for a_ in range(dim):
                f = f + c[a_] * G[kk][a_]
            e.assume(f >= 0, f <= 1)
        name = lattice_name
    ctx.bounds.update(dict(lattice=name, points=n, wrap=wrap))
    key = f"periodic:wiring:{name}" + (":history" if history else "")
    R = replay_factory(lattice_name if onedim is None else ("none" if onedim == "none" else "sym"), n, dim, wrap, onedim_sym=(onedim == "sym"), history=history)

    def sampler(rng):
        m = {"r": rng.uniform(0.05, 0.6), "a": rng.choice([-1, 1]) * rng.uniform(0.5, 2.0)}
        for i in range(n):
            m[f"p{i}"] = rng.uniform(0, 1.0)
            m[f"w{i}"], m[f"nw{i}"] = rng.uniform(0.5, 2), rng.uniform(3, 5)
            for a_ in range(3):
                m[f"p{i}_{a_}"] = rng.uniform(0, 1.0)
        for a_ in range(3):
            m[f"c{a_}"] = rng.uniform(0, 1.0)
        return m
    ctx.shadow(f"periodic local grid == brute-force set of images ({name})", R, sampler, key=key)

    def body():
        import warnings
        warnings.simplefilter("ignore")
        if onedim is None:
            g = build_grid(pg, lattice_name, pts, w, wrap)
        else:
            g = pg.PeriodicGrid(pts, w, realvecs, wrap=wrap)
        if history:          # an earlier identical query, then the weights are reassigned: the observed query must answer for the current weights
            g.get_localgrid(center, r)
            g.weights = arr([real(f"nw{i}") for i in range(n)])
        rec.ranges = None
        loc = g.get_localgrid(center, r)
        plain = bg.Grid(g.points, g.weights).get_localgrid(center, r) if onedim == "none" else None
        return g.points, g.weights, rec.ranges, loc, plain
    for p in e.run(body):
        ctx.paths += 1
        if p.exc is not None:
            ctx.fail("get_localgrid returns on every path (also for a sphere without images)", f"{type(p.exc).__name__}: {str(p.exc)[:160]}", key=key + ":raises", replay=R,
                     model=ctx.model_for(p.pc) or {})
            continue
        ctx.twin(p.pc)
        P, W, ranges, loc, plain = p.result
        P = np.asarray(P, dtype=object).reshape(n, -1)
        ranges = ranges or []
        idx = [int(i) for i in np.asarray(loc.indices)]
        LP = np.asarray(loc.points, dtype=object).reshape(len(idx), P.shape[1])
        # every (point, translation in the box) pair: present exactly when inside
        seen = [False] * len(idx)
        for nvec in itertools.product(*ranges) if Arows else [()]:
            for i in range(n):
                pos, d2 = [], K(0)
                for a_ in range(P.shape[1]):
                    shift = K(0)
                    for kk, nk in enumerate(nvec):
                        shift = shift + nk * Arows[kk][a_]
                    q = P[i, a_] - shift
                    pos.append(q)
                    d2 = d2 + (q - c[a_]) ** 2
                inside = d2 <= r * r
                hits = [k for k in range(len(idx)) if idx[k] == i and all(node_of(LP[k, a_]) is node_of(pos[a_]) for a_ in range(P.shape[1]))]
                for k in hits:
                    seen[k] = True
                if len(hits) > 1:
                    ctx.fail(f"image (point {i}, translation {nvec}) appears once", detail=f"{len(hits)} times", key=key, replay=R, model=ctx.model_for(p.pc) or {})
                elif len(hits) == 1:
                    ctx.holds(f"returned image (point {i}, translation {nvec}) lies inside the sphere", inside, p.pc, replay=R, key=key)
                    ctx.eq(f"its weight is the parent weight", loc.weights[hits[0]], W[i], p.pc, replay=R, key=key)
                else:
                    ctx.holds(f"omitted image (point {i}, translation {nvec}) lies outside the sphere", ~inside if isinstance(inside, sym.SymBool) else (not inside), p.pc, replay=R, key=key)
        (ctx.ok if all(seen) else ctx.fail)("every returned entry is parent point minus an integer lattice translation from the enumerated box", detail=str(seen), key=key, replay=R,
                                            **({} if all(seen) else dict(model=ctx.model_for(p.pc) or {})))
        if plain is not None:
            same = [int(i) for i in plain.indices] == idx
            (ctx.ok if same else ctx.fail)("without lattice vectors: same indices as the plain Grid", detail=f"{idx} vs {list(plain.indices)}", key=key + ":plain", replay=R,
                                           **({} if same else dict(model=ctx.model_for(p.pc) or {})))


def job_reciprocal_ground(ctx: Ctx):
    """ground facts per concrete lattice: the real __init__ (LAPACK svd) establishes G A^T = I, spacings = 1/|g_k| (what the svd stub assumes)."""
    pg, bg = _mods()
    import warnings
    warnings.simplefilter("ignore")
    for name, A in LATTICES.items():
        A = np.array(A)
        g = pg.PeriodicGrid(np.zeros((1, A.shape[1])), np.ones(1), A)
        G = np.array([[float(x) for x in row] for row in exact_reciprocal(A.tolist())])
        ok = np.allclose(g.recivecs, G, atol=1e-12) and np.allclose(g.recivecs @ A.T, np.eye(len(A)), atol=1e-12) and np.allclose(g.spacings, 1 / np.linalg.norm(G, axis=1), atol=1e-12)
        (ctx.ok if ok else ctx.fail)(f"{name}: real __init__ yields the exact reciprocal basis (to 1e-12)", detail=str(g.recivecs.tolist()), key="periodic:reciprocal",
                                     replay=(lambda m: (True, {})), **({} if ok else dict(model={})))


def job_range_1d(ctx: Ctx, n, wrap, sign=1):
    """range lemma for a one-dimensional grid with a fully symbolic lattice vector a != 0 (either sign), unbounded radius and translations."""
    import ast
    pg, bg, rec = install(EmptyTree)
    e = ctx.engine
    ctx.encoded(pg.PeriodicGrid.__init__, pg.PeriodicGrid.get_localgrid)
    a = real("a")
    e.assume(a > 0 if sign > 0 else a < 0)
    pts = sym_points("p", n, 0)
    w = arr([real(f"w{i}") for i in range(n)])
    c0, r = real("c0"), real("r")
    e.assume(r >= 0)
    nk = integer("n0")
    key = "periodic:range:1d-symbolic-vector"
    ctx.bounds.update(dict(lattice="1-D, symbolic vector a != 0", points=n, wrap=wrap, radius="any r >= 0", translations="unbounded integers"))
    R = replay_factory("sym", n, 0, wrap, onedim_sym=True)
    recorded = []

    def rec_range(lo, hi):
        recorded.append((lo, hi))
        raise _Stop()

    class StripAstype(ast.NodeTransformer):
        def visit_Call(self, node):
            self.generic_visit(node)
            if isinstance(node.func, ast.Attribute) and node.func.attr == "astype" and len(node.args) == 1 and isinstance(node.args[0], ast.Name) and node.args[0].id == "int":
                return node.func.value
            return node
    glg = harness.recompile(pg.PeriodicGrid.get_localgrid, StripAstype(), {"range": rec_range})

    def body():
        import warnings
        warnings.simplefilter("ignore")
        g = pg.PeriodicGrid(pts, w, arr([a]), wrap=wrap)
        del recorded[:]
        try:
            glg(g, c0, r)
        except _Stop:
            pass
        return g.points, list(recorded)
    for p in e.run(body):
        ctx.paths += 1
        if p.exc is not None:
            ctx.fail("box computation raises", f"{type(p.exc).__name__}: {str(p.exc)[:160]}", key=key + ":raises", replay=R, model=ctx.model_for(p.pc) or {})
            continue
        ctx.twin(p.pc)
        P, ranges = p.result
        if len(ranges) != 1:
            ctx.fail("one integer range for the lattice vector", detail=str(len(ranges)), key=key, replay=R, model={})
            continue
        lo, hi = ranges[0]
        xx, yy = real("xx"), real("yy")
        ctx.holds("for reals x, y >= 0:  x^2 <= y^2  =>  -y <= x <= y", (~((xx * xx <= yy * yy) & (yy >= 0))) | ((xx <= yy) & (xx >= -yy)), (), key=key + ":lemma")
        for i in range(n):
            d = P[i] - nk * a - c0
            inside = d * d <= r * r
            lin = (d <= r) & (d >= -r)                       # instance x := d, y := r of the lemma
            # in units of the (signed) lattice vector:  d/a = p/a - n - c/a  and  |d/a| <= r/|a|
            s_ = K(1) if sign > 0 else K(-1)
            unit = ((d / a) * s_ <= r / (a * s_)) & ((d / a) * s_ >= -r / (a * s_))
            ctx.holds(f"point {i}: -r <= d <= r  =>  |d/a| <= r/|a|", (~lin) | unit, p.pc, key=key + ":lemma")
            ctx.holds(f"point {i}: |p - n a - c| <= r  =>  ilc_min <= n <= ilc_max, for every integer n and every a != 0", (~inside) | ((nk >= lo) & (nk + 1 <= hi)),
                      p.pc, assume=[(~inside) | lin, (~lin) | unit], replay=R, key=key)


def jobs(tier):
    js = [Job("reciprocal/ground", job_reciprocal_ground)]
    for wrap in (False, True):
        for sign in (1, -1):
            js.append(Job(f"range/1d-symbolic/wrap={wrap}/a{'>' if sign > 0 else '<'}0", job_range_1d, 2, wrap, sign))
    fam = ["2d-orthogonal", "2d-skewed", "2d-negative", "2d-one-vector", "3d-orthogonal", "3d-one-vector"] if tier == "quick" else list(LATTICES)
    for name in fam:
        for wrap in ((False,) if tier == "quick" else (False, True)):
            js.append(Job(f"range/{name}/wrap={wrap}", job_range, name, 1, wrap))
    if tier == "thorough":
        for name in ("2d-skewed", "3d-two-vectors"):
            js.append(Job(f"range/{name}/2pts", job_range, name, 2, False))
    for wrap in (False, True):
        js.append(Job(f"wiring/1d-symbolic/wrap={wrap}", job_wiring, "sym", 2, wrap, "sym"))
    js.append(Job("wiring/none-1d", job_wiring, "1d", 2, False, "none"))
    js.append(Job("wiring/none-2d", job_wiring, "2d", 2, False, "none"))
    for name in (["2d-orthogonal", "2d-skewed"] if tier == "quick" else ["2d-orthogonal", "2d-skewed", "2d-negative", "2d-one-vector", "3d-one-vector"]):
        js.append(Job(f"wiring/{name}", job_wiring, name, 1, False))
    for name in (["2d-obtuse", "2d-negative"] if tier == "quick" else ["2d-obtuse", "2d-negative", "2d-skewed", "2d-rotated"]):
        js.append(Job(f"wiring/{name}/wrap=True", job_wiring, name, 1, True))
    js.append(Job("wiring/1d-symbolic/history", job_wiring, "sym", 2, False, "sym", True))
    js.append(Job("wiring/2d-orthogonal/history", job_wiring, "2d-orthogonal", 1, False, None, True))
    only = os.environ.get("SYMGRID_ONLY")
    return [j for j in js if not only or only in j.name]


def main():
    t0 = time.time()
    res = harness.run_jobs(jobs(harness.tier()))
    return harness.finish(
        PROP, res, t0, "DESIGN.md#c11",
        bounds=dict(range_lemma="6 (quick) / 14 concrete rational lattices in 2-D/3-D incl. skewed, negative, fewer vectors than dimensions; symbolic point, centre, radius <= 1.5 spacings; UNBOUNDED integer translations",
                    wiring="1-D grid with a fully symbolic lattice vector (either sign), 2 points, wrap on/off; no lattice vectors (1-D, 2-D) vs plain Grid; 2-D lattices with 1 point, radius < 0.45 spacing"),
        outside=["fully symbolic 2-D/3-D lattices (z3 returns unknown)", "the SVD itself (LAPACK): replaced by the reciprocal-basis contract, checked as a ground fact per lattice",
                 "spheres much larger than the cell in the wiring jobs (the range lemma covers radius <= 1.5 spacings)"],
        assumptions=["cKDTree stub contract (C10)", "np.linalg.svd stub: U diag(1/S) Vt == exact reciprocal basis", "fractional coordinates of points within [0, 1.1] (range) / [-0.25, 1.25] (wiring) so that the integer box can be enumerated"])


if __name__ == "__main__":
    sys.exit(main())
