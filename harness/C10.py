"""C10 - local grids hold exactly the points inside the cutoff sphere, for any grid type; index selection (basegrid.py & subclasses)."""
import sys, time, os, itertools, math
import numpy as np
from fractions import Fraction
from symgrid import dag, poly, smt, sym, npproxy, harness
from symgrid.sym import Engine, Sym, real, K, node_of, f_and, f_or, f_not, cmp, TRUE
from symgrid.harness import Job, Ctx
from harness.C03 import unpatched

PROP = "C10"


def _mods():
    import grid.basegrid as bg, grid.atomgrid as ag, grid.cubic as cu, grid.periodicgrid as pg, grid.molgrid as mg, grid.angular as an
    return bg, ag, cu, pg, mg, an


class StubTree:
    """contract of scipy.spatial.cKDTree used here: snapshot of the points at construction; query_ball_point(c, r) = ascending
    indices i with sum((p_i - c)**2) <= r**2 (decided by forking on each point)."""
    built = 0

    def __init__(self, points, *a, **k):
        StubTree.built += 1
        self.pts = np.array(points, dtype=object, copy=True)

    @property
    def data(self):
        return self.pts

    @property
    def n(self):
        return len(self.pts)

    @property
    def m(self):
        return self.pts.shape[1]

    @property
    def maxes(self):
        return arr([sym.sym_extreme(list(self.pts[:, a]), "max") for a in range(self.pts.shape[1])])      # bounding box, no forks

    @property
    def mins(self):
        return arr([sym.sym_extreme(list(self.pts[:, a]), "min") for a in range(self.pts.shape[1])])

    def query_ball_point(self, c, r, p=2.0, **k):
        out = []
        c = np.atleast_1d(np.asarray(c, dtype=object))
        for i in range(len(self.pts)):
            d2 = K(0)
            for a in range(self.pts.shape[1]):
                d2 = d2 + (self.pts[i, a] - c[a]) ** 2
            if d2 <= K(1) * r * r:
                out.append(i)
        return out


def arr(vals, shape=None):
    a = np.empty(len(vals), dtype=object)
    a[:] = vals
    return a if shape is None else a.reshape(shape)


def sym_points(tag, n, dim):
    if dim == 0:
        return arr([real(f"{tag}{i}") for i in range(n)])
    return arr([real(f"{tag}{i}_{a}") for i in range(n) for a in range(dim)], (n, dim))


# ----------------------------------------------------------------------------- grid factories (symbolic state)
def make_grid(kind, n, tag="p", wtag="w"):
    bg, ag, cu, pg, mg, an = _mods()
    w = arr([real(f"{wtag}{i}") for i in range(n)])
    if kind in ("Grid1", "Grid2", "Grid3"):
        dim = int(kind[-1])
        return bg.Grid(sym_points(tag, n, dim), w), dim
    if kind == "Grid1flat":
        return bg.Grid(sym_points(tag, n, 0), w), 0
    if kind == "OneDGrid":
        return bg.OneDGrid(sym_points(tag, n, 0), w), 0
    if kind == "AtomGrid":
        g = object.__new__(ag.AtomGrid)
        g._points = sym_points(tag, n, 3)
        g._weights = w
        g._center = arr([real("ctr0"), real("ctr1"), real("ctr2")])
        return g, 3
    if kind in ("UniformGrid", "Tensor1DGrids", "MolGrid", "AngularGrid", "PeriodicGrid"):
        cls = {"UniformGrid": cu.UniformGrid, "Tensor1DGrids": cu.Tensor1DGrids, "MolGrid": mg.MolGrid, "AngularGrid": an.AngularGrid, "PeriodicGrid": pg.PeriodicGrid}[kind]
        g = object.__new__(cls)
        bg.Grid.__init__(g, sym_points(tag, n, 3), w)
        if kind == "PeriodicGrid":
            g._realvecs = np.zeros((0, 3))
            g._recivecs = np.zeros((0, 3))
            g._spacings = np.zeros(0)
            g._frac_intvls = np.zeros((0, 2))
        return g, 3
    raise ValueError(kind)


def concrete_grid(kind, m, n, tag="p", wtag="w"):
    """the same grid with float state from a model (for replay)."""
    bg, ag, cu, pg, mg, an = _mods()
    rng = np.random.default_rng(7)
    w = np.array([float(m.get(f"{wtag}{i}", 1.0 + i)) for i in range(n)])

    def pts(dim):
        if dim == 0:
            return np.array([float(m.get(f"{tag}{i}", rng.normal())) for i in range(n)])
        return np.array([[float(m.get(f"{tag}{i}_{a}", rng.normal())) for a in range(dim)] for i in range(n)])
    if kind in ("Grid1", "Grid2", "Grid3"):
        return bg.Grid(pts(int(kind[-1])), w)
    if kind == "Grid1flat":
        return bg.Grid(pts(0), w)
    if kind == "OneDGrid":
        return bg.OneDGrid(pts(0), w)
    if kind == "AtomGrid":
        g = object.__new__(ag.AtomGrid)
        g._points, g._weights = pts(3), w
        g._center = np.array([float(m.get(f"ctr{a}", 0.5 * a + 1)) for a in range(3)])
        return g
    cls = {"UniformGrid": cu.UniformGrid, "Tensor1DGrids": cu.Tensor1DGrids, "MolGrid": mg.MolGrid, "AngularGrid": an.AngularGrid, "PeriodicGrid": pg.PeriodicGrid}[kind]
    g = object.__new__(cls)
    bg.Grid.__init__(g, pts(3), w)
    if kind == "PeriodicGrid":
        g._realvecs, g._recivecs, g._spacings, g._frac_intvls = np.zeros((0, 3)), np.zeros((0, 3)), np.zeros(0), np.zeros((0, 2))
    return g


def center_of(m, dim):
    if dim == 0:
        return np.array(float(m.get("c0", 0.0)))
    return np.array([float(m.get(f"c{a}", 0.0)) for a in range(dim)])


def brute(points, center, radius):
    p = np.asarray(points, float).reshape(len(points), -1)
    c = np.atleast_1d(np.asarray(center, float))
    return np.nonzero(np.sqrt(((p - c) ** 2).sum(axis=1)) <= radius)[0]


# ----------------------------------------------------------------------------- local grid, single query and histories
def job_local(ctx: Ctx, kind, n, history):
    """history: tuple of steps, each 'q' (query), 'qinf', 'setp' (reassign points), 'setw' (reassign weights); the last step is a query."""
    bg, ag, cu, pg, mg, an = _mods()
    for mod in (bg, pg):
        npproxy.install(mod)
        mod.cKDTree = StubTree
    npproxy.install(ag)
    e = ctx.engine
    ctx.encoded(bg.Grid.get_localgrid, bg.LocalGrid.__init__, bg.Grid.points.fset, bg.Grid.weights.fset)
    if kind == "AtomGrid":
        ctx.encoded(ag.AtomGrid.points.fget)
    g0, dim = make_grid(kind, n)
    cdim = max(dim, 1)
    c = arr([real(f"c{a}") for a in range(cdim)])
    center = c if dim else c[0]
    r, r0 = real("r"), real("r0")
    e.assume(r >= 0, r0 >= 0)
    ctx.bounds.update(dict(grid=kind, points=n, dim=dim or 1, history=list(history)))
    key = f"{kind}:localgrid:" + "-".join(history)
    newp = sym_points("np", n, dim)
    shift = real("shift")
    neww = arr([real(f"nw{i}") for i in range(n)])

    def replay(m):
        with unpatched(bg, pg, ag):
            import scipy.spatial
            bg.cKDTree = pg.cKDTree = scipy.spatial.cKDTree
            try:
                g = concrete_grid(kind, m, n)
                ctr = center_of(m, dim)
                rad, rad0 = float(m.get("r", 1.0)), float(m.get("r0", 1.0))
                info = dict(kind=kind, history=list(history), center=np.atleast_1d(ctr).tolist(), radius=rad)
                try:
                    loc = None
                    for step in history:
                        if step == "q0":
                            g.get_localgrid(ctr, rad0)
                        elif step == "setp":
                            g.points = concrete_grid(kind, m, n, tag="np").points if kind != "AtomGrid" else None
                        elif step == "setw":
                            g.weights = concrete_grid(kind, m, n, wtag="nw").weights
                        elif step == "mutp":
                            x = g.points
                            x += float(m.get("shift", 10.0))
                            g.points = x
                        elif step == "q":
                            loc = g.get_localgrid(ctr, rad)
                        elif step == "qinf":
                            loc = g.get_localgrid(ctr, np.inf)
                            rad = np.inf
                except Exception as ex:
                    info["raised"] = f"{type(ex).__name__}: {ex}"
                    return True, info
                want = brute(g.points, ctr, rad)
                got = np.asarray(loc.indices)
                info.update(points=np.asarray(g.points).tolist(), returned_indices=got.tolist(), inside_sphere=want.tolist())
                bad = got.tolist() != want.tolist() or not np.allclose(np.asarray(loc.points, float).reshape(len(got), -1), np.asarray(g.points, float).reshape(g.size, -1)[want]) \
                    or not np.allclose(loc.weights, np.asarray(g.weights)[want])
                return bad, info
            finally:
                bg.cKDTree = pg.cKDTree = StubTree
    R = replay

    def body():
        g, _ = make_grid(kind, n)
        loc = None
        rad = r
        for step in history:
            if step == "q0":
                g.get_localgrid(center, r0)
            elif step == "setp":
                g.points = newp
            elif step == "setw":
                g.weights = neww
            elif step == "mutp":            # edit the array obtained from grid.points in place and assign it back
                x = g.points
                x += shift
                g.points = x
            elif step == "q":
                loc = g.get_localgrid(center, r)
            elif step == "qinf":
                loc = g.get_localgrid(center, np.inf)
                rad = None
        return loc, g.points, g.weights, rad
    for p in e.run(body):
        ctx.paths += 1
        if p.exc is not None:
            ctx.fail("get_localgrid returns a (possibly empty) local grid on every path", f"{type(p.exc).__name__}: {str(p.exc)[:160]}", key=key + ":raises", replay=R,
                     model=ctx.model_for(p.pc) or {})
            continue
        ctx.twin(p.pc)
        loc, pts, w, rad = p.result
        idx = [int(i) for i in np.asarray(loc.indices)]
        (ctx.ok if idx == sorted(set(idx)) else ctx.fail)("indices strictly ascending, each parent point at most once", detail=str(idx), key=key, replay=R)
        ok_type = isinstance(loc.indices, np.ndarray) and loc.indices.dtype.kind in "iu" and loc.indices.ndim == 1
        (ctx.ok if ok_type else ctx.fail)("indices is a 1-D integer array", detail=repr(getattr(loc.indices, "dtype", None)), key=key, replay=R, **({} if ok_type else dict(model=ctx.model_for(p.pc) or {})))
        P = np.asarray(pts, dtype=object).reshape(n, -1)
        for i in range(n):
            if rad is None:
                inside = TRUE
            else:
                d2 = K(0)
                for a in range(P.shape[1]):
                    d2 = d2 + (P[i, a] - c[a]) ** 2
                inside = (d2 <= rad * rad).f if isinstance(d2 <= rad * rad, sym.SymBool) else (TRUE if (d2 <= rad * rad) else sym.FALSE)
            want_in = i in idx
            ctx.holds(f"point {i} is {'in' if want_in else 'not in'} the local grid  <=>  it is {'inside' if want_in else 'outside'} the sphere around the CURRENT points",
                      inside if want_in else f_not(inside), p.pc, replay=R, key=key)
        LP = np.asarray(loc.points, dtype=object).reshape(len(idx), P.shape[1])
        for k, i in enumerate(idx):
            for a in range(P.shape[1]):
                ctx.eq(f"local.points[{k}] == points[{i}] (component {a})", LP[k, a], P[i, a], p.pc, replay=R, key=key)
            ctx.eq(f"local.weights[{k}] == weights[{i}]", loc.weights[k], w[i], p.pc, replay=R, key=key)
        (ctx.ok if len(loc.weights) == len(idx) and len(LP) == len(idx) else ctx.fail)("sizes agree", key=key, replay=R)
        ctr = np.atleast_1d(np.asarray(loc.center, dtype=object))
        for a in range(cdim):
            ctx.eq(f"local.center[{a}] is the requested centre", ctr[a], c[a], p.pc, replay=R, key=key)


# ----------------------------------------------------------------------------- index selection
def job_getitem(ctx: Ctx, kind, n):
    bg, ag, cu, pg, mg, an = _mods()
    for mod in (bg, pg):
        npproxy.install(mod)
    e = ctx.engine
    ctx.encoded(bg.Grid.__getitem__, bg.OneDGrid.__getitem__, pg.PeriodicGrid.__getitem__)
    ctx.bounds.update(dict(grid=kind, points=n, index_kinds=["int", "np.int64", "negative int", "slice", "index array", "boolean mask"]))
    key = f"{kind}:getitem"
    indices = [("int", 1, [1]), ("np.int64", np.int64(1), [1]), ("np.int32", np.int32(0), [0]), ("negative int", -1, [n - 1]), ("slice", slice(0, n, 2), list(range(0, n, 2))),
               ("index array", np.array([n - 1, 0]), [n - 1, 0]), ("mask", np.array([i % 2 == 0 for i in range(n)]), [i for i in range(n) if i % 2 == 0])]

    def build():
        if kind == "OneDGrid":
            return bg.OneDGrid(sym_points("p", n, 0), arr([real(f"w{i}") for i in range(n)]), (real("lo"), real("hi"))), 0
        if kind == "PeriodicGrid":
            g = object.__new__(pg.PeriodicGrid)
            bg.Grid.__init__(g, sym_points("p", n, 2), arr([real(f"w{i}") for i in range(n)]))
            g._realvecs = np.array([[1.0, 0.0], [0.25, 2.0]])
            return g, 2
        return bg.Grid(sym_points("p", n, 2), arr([real(f"w{i}") for i in range(n)])), 2
    if kind == "OneDGrid":
        e.assume(real("lo") < real("hi"))
        for i in range(n):
            e.assume(real(f"p{i}") >= real("lo"), real(f"p{i}") <= real("hi"))
    if kind == "PeriodicGrid":
        # the constructor of the selection recomputes fractional coordinates: keep the points bounded so that wrap-independent state is cheap
        pass

    for label, index, expect in indices:
        def replay(m, index=index, expect=expect, label=label):
            with unpatched(bg, pg):
                rng = np.random.default_rng(3)
                if kind == "OneDGrid":
                    g = bg.OneDGrid(np.linspace(0.1, 0.9, n), np.arange(1.0, n + 1), (0.0, 1.0))
                elif kind == "PeriodicGrid":
                    g = pg.PeriodicGrid(rng.random((n, 2)), np.arange(1.0, n + 1), np.array([[1.0, 0.0], [0.25, 2.0]]))
                else:
                    g = bg.Grid(rng.random((n, 2)), np.arange(1.0, n + 1))
                try:
                    s = g[index]
                except Exception as ex:
                    return True, dict(kind=kind, index=label, raised=f"{type(ex).__name__}: {ex}")
                bad = type(s) is not type(g) or not np.allclose(np.asarray(s.points).reshape(len(expect), -1), np.asarray(g.points).reshape(n, -1)[expect]) \
                    or not np.allclose(s.weights, g.weights[expect])
                if kind == "OneDGrid":
                    bad = bad or s.domain != g.domain
                if kind == "PeriodicGrid":
                    bad = bad or not np.array_equal(s.realvecs, g.realvecs)
                return bad, dict(kind=kind, index=label, selected_points=np.asarray(s.points).tolist(), expected_rows=expect)

        def body(index=index):
            g, dim = build()
            return g, g[index]
        for p in e.run(body):
            ctx.paths += 1
            if p.exc is not None:
                ctx.fail(f"grid[{label}] returns a grid", f"{type(p.exc).__name__}: {str(p.exc)[:160]}", key=f"{key}:{label}", replay=replay, model=ctx.model_for(p.pc) or {})
                continue
            g, s = p.result
            (ctx.ok if type(s) is type(g) else ctx.fail)(f"grid[{label}] has the same type", detail=type(s).__name__, key=f"{key}:{label}", replay=replay)
            SP = np.asarray(s.points, dtype=object).reshape(len(expect), -1) if s.size == len(expect) else None
            if SP is None:
                ctx.fail(f"grid[{label}] selects {len(expect)} points", detail=str(s.size), key=f"{key}:{label}", replay=replay, model={})
                continue
            GP = np.asarray(g.points, dtype=object).reshape(n, -1)
            for k, i in enumerate(expect):
                for a in range(GP.shape[1]):
                    ctx.eq(f"grid[{label}].points[{k}] == points[{i}]", SP[k, a], GP[i, a], p.pc, replay=replay, key=f"{key}:{label}")
                ctx.eq(f"grid[{label}].weights[{k}] == weights[{i}]", s.weights[k], g.weights[i], p.pc, replay=replay, key=f"{key}:{label}")
            if kind == "OneDGrid":
                ctx.eq("domain preserved (lower)", s.domain[0], g.domain[0], p.pc, key=f"{key}:{label}", replay=replay)
                ctx.eq("domain preserved (upper)", s.domain[1], g.domain[1], p.pc, key=f"{key}:{label}", replay=replay)
            if kind == "PeriodicGrid":
                (ctx.ok if np.array_equal(s.realvecs, g.realvecs) else ctx.fail)("lattice preserved", key=f"{key}:{label}", replay=replay)


def jobs(tier):
    js = []
    n = 3 if tier == "quick" else 4
    kinds = ["Grid1", "Grid1flat", "Grid2", "Grid3", "OneDGrid", "AtomGrid", "MolGrid", "UniformGrid", "Tensor1DGrids", "AngularGrid", "PeriodicGrid"]
    for kind in kinds:
        nn = n if kind in ("Grid1", "Grid1flat", "Grid2", "OneDGrid") else 3
        js.append(Job(f"local/{kind}/q", job_local, kind, nn, ("q",)))
        if kind != "PeriodicGrid":      # a periodic grid documents an infinite radius as invalid
            js.append(Job(f"local/{kind}/qinf", job_local, kind, 2, ("qinf",)))
    hist_kinds = ["Grid2", "OneDGrid", "UniformGrid", "MolGrid"] if tier == "quick" else ["Grid1flat", "Grid2", "Grid3", "OneDGrid", "UniformGrid", "MolGrid", "Tensor1DGrids", "AngularGrid"]
    for kind in hist_kinds:
        for hist in (("q0", "setp", "q"), ("q0", "setw", "q"), ("q0", "q"), ("setp", "q0", "setw", "q"), ("q0", "mutp", "q")):
            js.append(Job(f"local/{kind}/{'-'.join(hist)}", job_local, kind, 2, hist))
    js.append(Job("local/AtomGrid/q0-q", job_local, "AtomGrid", 2, ("q0", "q")))
    for kind in ("Grid2", "OneDGrid", "PeriodicGrid"):
        js.append(Job(f"getitem/{kind}", job_getitem, kind, 4))
    only = os.environ.get("SYMGRID_ONLY")
    return [j for j in js if not only or only in j.name]


def main():
    t0 = time.time()
    res = harness.run_jobs(jobs(harness.tier()))
    return harness.finish(
        PROP, res, t0, "DESIGN.md#c10",
        bounds=dict(points="2-3 (quick) / up to 4 symbolic points per grid, dimensions 1-3", grids="Grid (1-D flat, (N,1), 2-D, 3-D), OneDGrid, AtomGrid (symbolic centre), MolGrid, UniformGrid, Tensor1DGrids, AngularGrid, PeriodicGrid without lattice",
                    histories="up to 4 steps of query / points reassignment / weights reassignment before the observed query", index_kinds="int, np.int64, np.int32, negative, slice, index array, mask (non-empty selections)"),
        outside=["empty index selections (grid[1:1])", "the k-d tree's own correctness (SciPy C code) - replaced by the stub contract", "grids beyond the size bound (code path is size-independent)"],
        assumptions=["cKDTree stub: snapshot of the points at construction; query_ball_point = ascending {i : |p_i - c|^2 <= r^2}", "subclass instances are built with symbolic state through Grid.__init__/direct attributes (their own constructors are covered in C05/C07/C13)"])


if __name__ == "__main__":
    sys.exit(main())
