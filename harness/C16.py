"""C16 - Poisson solvers: the radial problems that are posed and the recombination of their solutions (poisson.py, robust_poisson.py).

The ODE drivers and the splines are stubs that capture what they are given; decided is that what the code POSES is the radial Poisson problem
and that the pieces are recombined as the property states (accuracy of SciPy's integrators is outside).
"""
import sys, time, os, itertools, math
import numpy as np
from fractions import Fraction
from symgrid import dag, poly, smt, sym, npproxy, harness
from symgrid.sym import Engine, Sym, real, K, node_of, PI
from symgrid.angles import Ang
from symgrid.harness import Job, Ctx
from harness.C03 import unpatched

PROP = "C16"
Y00 = 1 / (2 * PI.sqrt())


def _mods():
    import grid.poisson as po, grid.robust_poisson as rp, grid.utils as ut, grid.coulomb as co
    return po, rp, ut, co


def arr(vals, shape=None):
    a = np.empty(len(vals), dtype=object)
    a[:] = vals
    return a if shape is None else a.reshape(shape)


def install():
    mods = _mods()
    for m in mods:
        npproxy.install(m)
    return mods


def lm_list(lmax):
    out = []
    for l in range(lmax + 1):
        for m in list(range(0, l + 1)) + [-x for x in range(-l, 0)]:
            out.append((l, m))
    return out


class FakeRGrid:
    def __init__(self, pts):
        self.points = pts


class FakeAtomGrid:
    """duck-typed atomic grid: symbolic radial nodes, harmonic components rho_lm(r) as uninterpreted functions, total charge Q"""
    def __init__(self, tag, lmax_full, rpts, e):
        self.tag, self.l_max, self.rgrid = tag, lmax_full, FakeRGrid(rpts)
        self.seen_vals = []
        self.t, self.p = Ang.free(f"t{tag}", e), Ang.free(f"p{tag}", e)
        self.rq = real(f"rq{tag}")

    def radial_component_splines(self, vals):
        self.seen_vals.append(vals)
        n = (self.l_max // 2 + 1) ** 2
        return [(lambda j: (lambda r, nu=0: arr([Sym(dag.uf(f"rho{self.tag}_{j}", [node_of(v)], (int(nu),))) for v in np.atleast_1d(np.asarray(r, dtype=object))])))(j) for j in range(n)]

    def integrate(self, vals):
        return Sym(dag.uf(f"Q{self.tag}", [node_of(vals[0])]))

    def convert_cartesian_to_spherical(self, points):
        out = np.empty((len(points), 3), dtype=object)
        for i in range(len(points)):
            out[i] = [self.rq, self.t, self.p]
        return out


def job_atom(ctx: Ctx, kind, lmax_full, origin_in_grid, options=False):
    po, rp, ut, co = install()
    e = ctx.engine
    sym.Engine.cur = e
    ctx.encoded(po._solve_poisson_bvp_atomgrid, po._solve_poisson_ivp_atomgrid)
    r = [real(f"r{i}") for i in range(3)]
    if origin_in_grid:
        r[0] = K(0)
    lo = K(Fraction(1, 10 ** 3))
    for i in range(3):
        if not (origin_in_grid and i == 0):
            e.assume(r[i] > (r[i - 1] if i and not (origin_in_grid and i == 1) else lo), r[i] < K(10 ** 5))
    if options:     # explicit boundary value, no origin added, points beyond remove_large_pts dropped: r0 < r1 < 50 < r2
        e.assume(r[1] < 50, r[2] > 50)
    ag = FakeAtomGrid("A", lmax_full, arr(r), e)
    e.assume(ag.rq > lo)
    fv = arr([real(f"f{k}") for k in range(4)])
    fv.flags.writeable = False
    captured = []

    def fake_bvp(x, fx, coeffs, bd_cond, transform=None, **kw):
        idx = len(captured)
        captured.append(dict(x=x, fx=fx, coeffs=coeffs, cond=bd_cond, transform=transform, kw=kw))
        return lambda pts: arr([Sym(dag.uf(f"u{idx}", [node_of(v)])) for v in np.atleast_1d(np.asarray(pts, dtype=object))])

    def fake_ivp(span, fx, coeffs, y0, transform=None, **kw):
        idx = len(captured)
        captured.append(dict(x=span, fx=fx, coeffs=coeffs, cond=y0, transform=transform, kw=kw))
        return lambda pts: arr([Sym(dag.uf(f"u{idx}", [node_of(v)])) for v in np.atleast_1d(np.asarray(pts, dtype=object))])
    po.solve_ode_bvp, po.solve_ode_ivp = fake_bvp, fake_ivp

    class TF:
        domain = (0, np.inf)
    tf = TF()
    key = f"poisson_{kind}:radial-problem"
    ctx.bounds.update(dict(solver=kind, l_max_half=lmax_full // 2, radial_nodes="3 symbolic" + (" incl. r = 0" if origin_in_grid else ""), density_components="uninterpreted rho_lm(r)"))
    rs = real("rs")
    e.assume(rs > lo)
    rmax, rmin = real("rmax"), real("rmin")
    e.assume(rmax > rmin, rmin > 0)
    params = {"tol": 1e-5} if kind == "bvp" else {"rtol": 1e-7}
    keep = dict(params)

    def replay(m):
        return None, dict(note="structural obligation on the captured radial problem")

    def body():
        del captured[:]
        if kind == "bvp" and options:
            fn = po._solve_poisson_bvp_atomgrid(ag, fv, tf, boundary=2.5, include_origin=False, remove_large_pts=50.0, ode_params=params)
        elif kind == "bvp":
            fn = po._solve_poisson_bvp_atomgrid(ag, fv, tf, ode_params=params)
        else:
            fn = po._solve_poisson_ivp_atomgrid(ag, fv, tf, r_interval=(rmax, rmin), ode_params=params)
        return fn, fn(arr([real("q0"), real("q1"), real("q2")], (1, 3)))
    for p in e.run(body):
        ctx.paths += 1
        if p.exc is not None:
            ctx.fail("the atomic Poisson problem is set up", f"{type(p.exc).__name__}: {str(p.exc)[:200]}", key=key, replay=replay, model=ctx.model_for(p.pc) or {})
            continue
        if ctx.twin(p.pc) == "unsat":
            continue
        fn, val = p.result
        lms = lm_list(lmax_full // 2)
        (ctx.ok if len(captured) == len(lms) else ctx.fail)("one radial problem per (l, m) with l <= l_max // 2", detail=str(len(captured)), key=key, replay=replay)
        (ctx.ok if params == keep else ctx.fail)("caller's ode_params dictionary unchanged", key=key, replay=replay)
        Q = Sym(dag.uf("QA", [node_of(fv[0])]))
        for j, ((l, m), cap) in enumerate(zip(lms, captured)):
            rho = Sym(dag.uf(f"rhoA_{j}", [rs.n]))
            co_ = cap["coeffs"]
            ev = lambda c_: (c_(arr([rs]))[0] if callable(c_) else K(c_))
            for q in e.run(lambda: (ev(co_[0]), ev(co_[1]), ev(co_[2]), cap["fx"](arr([rs]))[0])):
                if q.exc is not None:
                    ctx.fail(f"(l,m)=({l},{m}): coefficient functions evaluate", f"{type(q.exc).__name__}: {q.exc}", key=key, replay=replay, model={})
                    continue
                c0, c1, c2, f = q.result
                ctx.eq(f"(l,m)=({l},{m}): a_0(r) == -l(l+1)/r^2", c0, K(-l * (l + 1)) / (rs * rs), q.pc, replay=replay, key=key)
                if kind == "bvp":
                    ctx.eq(f"(l,m)=({l},{m}): a_1 == 0 (equation for u = r V)", c1, K(0), q.pc, replay=replay, key=key)
                    ctx.eq(f"(l,m)=({l},{m}): right-hand side == -4 pi r rho_lm(r)", f, -4 * PI * rs * rho, q.pc, replay=replay, key=key)
                else:
                    ctx.eq(f"(l,m)=({l},{m}): a_1(r) == 2/r", c1, 2 / rs, q.pc, replay=replay, key=key)
                    ctx.eq(f"(l,m)=({l},{m}): right-hand side == -4 pi rho_lm(r)", f, -4 * PI * rho, q.pc, replay=replay, key=key)
                ctx.eq(f"(l,m)=({l},{m}): leading coefficient 1", c2, K(1), q.pc, replay=replay, key=key)
            if kind == "bvp":
                cond = cap["cond"]
                want_far = (K(Fraction(5, 2)) if options else Q / Y00) if (l, m) == (0, 0) else K(0)
                ok_shape = len(cond) == 2 and cond[0][:2] == (0, 0) and cond[1][:2] == (1, 0)
                (ctx.ok if ok_shape else ctx.fail)(f"(l,m)=({l},{m}): conditions on u at both ends", detail=str(cond), key=key, replay=replay)
                if ok_shape:
                    ctx.eq(f"(l,m)=({l},{m}): u(0) == 0", cond[0][2], K(0), p.pc, replay=replay, key=key)
                    ctx.eq(f"(l,m)=({l},{m}): u(inf) == total charge / Y_00 * delta_l0", cond[1][2], want_far, p.pc, replay=replay, key=key)
                x = cap["x"]
                want_x = ([K(0)] if not origin_in_grid else []) + list(r) if not options else list(r[:2])
                (ctx.ok if len(x) == len(want_x) and all(node_of(a_) is node_of(b_) for a_, b_ in zip(x, want_x)) else ctx.fail)(
                    f"(l,m)=({l},{m}): mesh is the radial grid with the origin included once" if not options else f"(l,m)=({l},{m}): include_origin=False, remove_large_pts=50: mesh is exactly the radial points <= 50", detail=str(list(x)), key=key, replay=replay)
                (ctx.ok if cap["kw"].get("no_derivatives") is True and cap["kw"].get("tol") == 1e-5 and cap["kw"].get("max_nodes") == 50000 else ctx.fail)("defaults merged with the caller's options", detail=str(cap["kw"]), key=key, replay=replay)
            else:
                y0 = cap["cond"]
                if (l, m) == (0, 0):
                    ctx.eq("l=0: V(r_max) == Q / (Y_00 r_max)", y0[0], Q / Y00 / rmax, p.pc, replay=replay, key=key)
                    ctx.eq("l=0: V'(r_max) == -Q / (Y_00 r_max^2)", y0[1], -Q / Y00 / (rmax * rmax), p.pc, replay=replay, key=key)
                else:
                    ctx.eq(f"(l,m)=({l},{m}): homogeneous initial data", y0[0] + y0[1], K(0), p.pc, replay=replay, key=key)
                ctx.eq("integration runs from r_max", cap["x"][0], rmax, p.pc, replay=replay, key=key)
        # recombination at an arbitrary point (spherical coordinates supplied by the atomic grid)
        Y = ut.generate_real_spherical_harmonics(lmax_full // 2, arr([ag.t]), arr([ag.p]))[:, 0]
        want = K(0)
        for j in range(len(lms)):
            uj = Sym(dag.uf(f"u{j}", [ag.rq.n]))
            want = want + (uj / ag.rq if kind == "bvp" else uj) * Y[j]
        ctx.eq("potential(point) == sum_lm " + ("(u_lm(r)/r)" if kind == "bvp" else "V_lm(r)") + " Y_lm(theta, phi)", val[0], want, p.pc, replay=replay, key=key + ":recombination")


def job_molecular(ctx: Ctx):
    po, rp, ut, co = install()
    e = ctx.engine
    ctx.encoded(po._interpolate_molgrid_helper)
    natom, per = 3, 2
    aim = arr([real(f"aim{k}") for k in range(natom * per)])
    rho = arr([real(f"rho{k}") for k in range(natom * per)])
    rho.flags.writeable = False

    class FakeMol:
        def __init__(self):
            self.atgrids = [f"atom{i}" for i in range(natom)]
            self.aim_weights = aim
            self.atcoords = np.zeros((natom, 3))
            self.indices = np.arange(0, natom * per + 1, per)

        def __getitem__(self, i):
            return self.atgrids[i]
    got = []

    def cb(atom_grid, vals):
        got.append((atom_grid, vals))
        return lambda pts: arr([Sym(dag.uf(f"V_{atom_grid}", [node_of(v) for v in pts.ravel()]))])
    q = arr([real("q0"), real("q1"), real("q2")], (1, 3))
    key = "molecular-fan-out"

    def replay(m):
        with unpatched(po):
            import importlib
            rho_f = np.linspace(0.5, 1.5, natom * per)
            keepf = rho_f.copy()
            mol = FakeMol()
            mol.aim_weights = np.linspace(0.2, 0.9, natom * per)
            seen = []
            po._interpolate_molgrid_helper(mol, rho_f, lambda ag_, v: (seen.append(v.copy()), (lambda pts: np.zeros(1)))[1])(np.zeros((1, 3)))
            return not np.array_equal(rho_f, keepf), dict(density_before=keepf.tolist(), density_after=rho_f.tolist())
    for p in e.run(lambda: po._interpolate_molgrid_helper(FakeMol(), rho, cb)(q)):
        ctx.paths += 1
        if p.exc is not None:
            ctx.fail("molecular helper evaluates (the density array may be read-only)", f"{type(p.exc).__name__}: {str(p.exc)[:200]}", key=key, replay=replay, model={})
            continue
        want = K(0)
        for i in range(natom):
            want = want + Sym(dag.uf(f"V_atom{i}", [node_of(v) for v in q.ravel()]))
        ctx.eq("molecular potential == sum over atoms of the atomic solutions", p.result[0], want, p.pc, replay=replay, key=key)
        for i, (agname, vals) in enumerate(got[:natom]):
            (ctx.ok if agname == f"atom{i}" else ctx.fail)(f"atom {i} is solved on its own atomic grid", key=key, replay=replay)
            for k in range(per):
                ctx.eq(f"atom {i} receives w_A * rho on its own segment (value {k})", vals[k], aim[i * per + k] * rho[i * per + k], p.pc, replay=replay, key=key)
    ctx.twin(())


def job_laplacian(ctx: Ctx):
    po, rp, ut, co = install()
    e = ctx.engine
    sym.Engine.cur = e
    ctx.encoded(po.interpolate_laplacian)
    ag = FakeAtomGrid("A", 4, arr([real("r0"), real("r1")]), e)
    e.assume(ag.rq > K(Fraction(1, 1000)))

    class FakeMol:
        atgrids = [ag]
        aim_weights = arr([real("aim0"), real("aim1")])
        atcoords = np.zeros((1, 3))
        indices = np.array([0, 2])

        def __getitem__(self, i):
            return ag
    f = arr([real("f0"), real("f1")])
    key = "interpolate_laplacian"
    for p in e.run(lambda: po.interpolate_laplacian(FakeMol(), f)(arr([real("q0"), real("q1"), real("q2")], (1, 3)))):
        ctx.paths += 1
        if p.exc is not None:
            ctx.fail("interpolate_laplacian evaluates", f"{type(p.exc).__name__}: {str(p.exc)[:200]}", key=key, model=ctx.model_for(p.pc) or {})
            continue
        if ctx.twin(p.pc) == "unsat":
            continue
        Y = ut.generate_real_spherical_harmonics(2, arr([ag.t]), arr([ag.p]))[:, 0]
        want = K(0)
        for j, (l, m) in enumerate(lm_list(2)):
            S = lambda nu: Sym(dag.uf(f"rhoA_{j}", [ag.rq.n], (nu,)))
            want = want + (S(2) + 2 * S(1) / ag.rq - l * (l + 1) * S(0) / (ag.rq * ag.rq)) * Y[j]
        ctx.eq("Laplacian == sum_lm (S'' + 2 S'/r - l(l+1) S/r^2) Y_lm", p.result[0], want, p.pc, key=key)
        for k in range(2):
            ctx.eq(f"the atom's components are built from w_A f (value {k})", ag.seen_vals[-1][k], FakeMol.aim_weights[k] * f[k], p.pc, key=key)


def job_robust(ctx: Ctx, natom):
    po, rp, ut, co = install()
    e = ctx.engine
    ctx.encoded(rp.solve_poisson_robust, rp._build_core_density)
    npts = 2
    P = arr([real(f"P{i}_{a}") for i in range(npts) for a in range(3)], (npts, 3))
    R = arr([real(f"R{A}_{a}") for A in range(natom) for a in range(3)], (natom, 3))
    ncore = 2
    C = [arr([real(f"c{A}_{k}") for k in range(ncore)]) for A in range(natom)]
    AL = [arr([real(f"al{A}_{k}") for k in range(ncore)]) for A in range(natom)]
    for A in range(natom):
        for k in range(ncore):
            e.assume(AL[A][k] > 0)
    rho = arr([real(f"rho{i}") for i in range(npts)])
    rho.flags.writeable = False
    nums = np.array([6, 1, 8][:natom])
    rp.load_atomic_gaussian_params = lambda z: (C[list(nums).index(int(z))], AL[list(nums).index(int(z))])
    bvp_seen = []
    rp.solve_poisson_bvp = lambda mol, residual, transform, **kw: (bvp_seen.append((residual, kw)), (lambda pts: arr([Sym(dag.uf("Vres", [node_of(v) for v in pts.ravel()]))] * len(pts))))[1]
    coul_calls = []

    def fake_coulomb(points, centers_s, coeffs_s, alphas_s, normalized=True, **kw):
        coul_calls.append((centers_s, coeffs_s, alphas_s, normalized))
        out = []
        for i in range(len(points)):
            args = [node_of(v) for v in points[i]] + [node_of(v) for v in np.asarray(centers_s, dtype=object).ravel()] + [node_of(v) for v in coeffs_s] + [node_of(v) for v in alphas_s]
            out.append(Sym(dag.uf(f"Vcore{len(coeffs_s)}", args)))
        return arr(out)
    rp.coulomb_potential = fake_coulomb

    class Mol:
        points = P
    q = arr([real("q0"), real("q1"), real("q2")], (1, 3))
    key = "robust"

    def core(i, A):
        d2 = sum(((P[i, a] - R[A, a]) ** 2 for a in range(3)), K(0))
        return sum((C[A][k] * (AL[A][k] / PI) ** 1.5 * (-AL[A][k] * d2).exp() for k in range(ncore)), K(0))

    def replay(m):
        """concrete end-to-end run: density == fitted core model of a two-centre molecule, so the robust potential must be the sum of the analytic core potentials"""
        import importlib, warnings
        warnings.simplefilter("ignore")
        with unpatched(po, rp, ut, co):
            import grid.robust_poisson as rpm, grid.coulomb as com
            rp2 = importlib.reload(rpm)
            from grid.molgrid import MolGrid
            from grid.onedgrid import GaussLegendre
            from grid.rtransform import BeckeRTransform, InverseRTransform
            from grid.becke import BeckeWeights
            nums_c = np.array([6, 1])
            xyz = np.array([[0.0, 0.0, -0.6], [0.0, 0.0, 1.1]])
            rgrid = BeckeRTransform(1e-4, 1.5).transform_1d_grid(GaussLegendre(40))
            mol = MolGrid.from_size(nums_c, xyz, 50, rgrid=rgrid, aim_weights=BeckeWeights(), store=True)
            dens = np.zeros(mol.size)
            for z, ctr in zip(nums_c, xyz):
                cs, als = com.load_atomic_gaussian_params(int(z))
                dens += rp2._build_core_density(mol.points, ctr, cs, als)
            fn = rp2.solve_poisson_robust(mol, dens, InverseRTransform(BeckeRTransform(1e-4, 1.5)), nums_c, xyz, include_origin=False)
            pts = np.array([[0.3, 0.2, 0.1], [0.0, 0.5, 1.4], [1.0, -1.0, 0.2]])
            got = fn(pts)
            want = np.zeros(len(pts))
            for z, ctr in zip(nums_c, xyz):
                cs, als = com.load_atomic_gaussian_params(int(z))
                want += com.coulomb_potential(pts, np.tile(ctr, (len(cs), 1)), cs, als)
            rp_ = importlib.reload(rpm)
            return not np.allclose(got, want, rtol=1e-6, atol=1e-8), dict(returned=got.tolist(), sum_of_analytic_core_potentials=want.tolist())
    for dens_label, dens in (("arbitrary density", rho), ("density equal to the core model", arr([sum((core(i, A) for A in range(natom)), K(0)) for i in range(npts)]))):
        def body():
            del bvp_seen[:], coul_calls[:]
            fn = rp.solve_poisson_robust(Mol(), dens, "tf", nums, R, split2=False, boundary=None)
            return fn(q)
        for p in e.run(body):
            ctx.paths += 1
            if p.exc is not None:
                ctx.fail(f"solve_poisson_robust ({dens_label}) evaluates", f"{type(p.exc).__name__}: {str(p.exc)[:200]}", key=key, replay=replay, model=ctx.model_for(p.pc) or {})
                continue
            residual, kw = bvp_seen[0]
            for i in range(npts):
                want = dens[i] - sum((core(i, A) for A in range(natom)), K(0))
                ctx.eq(f"{dens_label}: residual[{i}] == rho - sum_A core density_A", residual[i], want, p.pc, replay=replay, key=key + ":residual")
                if dens_label.startswith("density equal"):
                    ctx.eq(f"core model: residual[{i}] vanishes identically (the robust solver is exact there)", residual[i], K(0), p.pc, replay=replay, key=key + ":residual")
            want = Sym(dag.uf("Vres", [node_of(v) for v in q.ravel()]))
            for A in range(natom):
                args = [node_of(v) for v in q[0]] + [node_of(R[A, a]) for _ in range(ncore) for a in range(3)] + [node_of(v) for v in C[A]] + [node_of(v) for v in AL[A]]
                want = want + Sym(dag.uf(f"Vcore{ncore}", args))
            ctx.eq(f"{dens_label}: total potential == sum_A analytic core potential of atom A (its own centre and parameters) + numerical potential of the residual", p.result[0], want, p.pc,
                   replay=replay, key=key + ":recombination")
            (ctx.ok if all(c_[3] is True for c_ in coul_calls) else ctx.fail)("core potentials use the normalised Gaussians", key=key, replay=replay)
    ctx.twin(())


def job_ground_accuracy(ctx: Ctx, what):
    """accuracy clauses on the float code with the real SciPy drivers (not a solver question; ground enumeration): Gaussian charges vs their analytic
    Coulomb potential (atol 1e-2, as documented in the suite), linearity of the solution in the density, exactness of the robust solver on its own core model."""
    import warnings
    warnings.simplefilter("ignore")
    from scipy.special import erf
    from grid.atomgrid import AtomGrid
    from grid.molgrid import MolGrid
    from grid.onedgrid import GaussLegendre
    from grid.rtransform import BeckeRTransform, InverseRTransform
    from grid.becke import BeckeWeights
    import grid.poisson as po, grid.coulomb as co
    from grid.robust_poisson import solve_poisson_robust
    ctx.encoded(po.solve_poisson_bvp, po.solve_poisson_ivp, solve_poisson_robust)
    tf = BeckeRTransform(1e-5, 1.5)
    rg = tf.transform_1d_grid(GaussLegendre(50))
    itf = InverseRTransform(tf)

    def rho(p, cs, al, cf):
        return sum(c * (a / np.pi) ** 1.5 * np.exp(-a * np.sum((p - x) ** 2, axis=1)) for x, a, c in zip(cs, al, cf))

    def pot(p, cs, al, cf):
        out = 0
        for x, a, c in zip(cs, al, cf):
            r = np.linalg.norm(p - x, axis=1)
            out = out + c * np.where(r > 1e-10, erf(np.sqrt(a) * r) / np.maximum(r, 1e-300), 2 * np.sqrt(a / np.pi))
        return out
    # fixed evaluation points (accuracy of an adaptive integrator is not a quantity to randomise): distances 0.35 .. 3.2 from the origin, generic directions
    q = np.array([[0.30, -0.15, 0.10], [-0.55, 0.40, 0.35], [0.20, 0.90, -0.75], [-1.10, -0.60, 0.95], [1.60, 0.85, -1.30], [-1.90, 2.10, 1.40]])
    bad = {}
    if what == "robust-core":
        atn, atc = np.array([6, 8]), np.array([[0, 0, -1.1], [0, 0, 1.1]])
        mg = MolGrid(atn, [AtomGrid(rg, degrees=[11], center=c) for c in atc], BeckeWeights(order=3), store=True)
        dens, vex = 0, 0
        for z, c in zip(atn, atc):
            cfs, als = co.load_atomic_gaussian_params(int(z))
            dens = dens + sum(cc * (a / np.pi) ** 1.5 * np.exp(-a * np.sum((mg.points - c) ** 2, axis=1)) for cc, a in zip(cfs, als))
            vex = vex + co.coulomb_potential(q, np.tile(c, (len(cfs), 1)), cfs, als)
        v = solve_poisson_robust(mg, dens, itf, atn, atc, include_origin=True, remove_large_pts=10.0)(q)
        err = float(np.max(np.abs(v - vex)))
        if not err <= 1e-6 * float(np.max(np.abs(vex))):
            bad["robust solver on its own fitted core model (C, O)"] = dict(max_abs_error=err, potential_scale=float(np.max(np.abs(vex))))
        label = "robust solver == analytic core potential when the density is the fitted core model (relative 1e-6)"
    elif what == "robust-split2":
        atn, atc = np.array([6, 8]), np.array([[0, 0, -1.1], [0, 0, 1.1]])
        mg = MolGrid(atn, [AtomGrid(rg, degrees=[11], center=c) for c in atc], BeckeWeights(order=3), store=True)
        dens, vex = 0, 0
        for z, c in zip(atn, atc):
            cfs, als = co.load_atomic_gaussian_params(int(z))
            dens = dens + sum(cc * (a / np.pi) ** 1.5 * np.exp(-a * np.sum((mg.points - c) ** 2, axis=1)) for cc, a in zip(cfs, als))
            vex = vex + co.coulomb_potential(q, np.tile(c, (len(cfs), 1)), cfs, als)
        # smooth extra density: different amounts on the two nuclei (so that swapping the centres of the fitted functions shows) and a bond-centre Gaussian
        ecs, eal, ecf = [atc[0].astype(float), atc[1].astype(float), np.zeros(3)], [2.0, 0.8, 1.0], [0.9, 0.2, 0.3]
        dens = dens + rho(mg.points, ecs, eal, ecf)
        vex = vex + pot(q, ecs, eal, ecf)
        basis = np.array([5.0, 0.8, 2.0])        # deliberately not ascending: the fitted exponents must stay paired with their weights
        v2 = solve_poisson_robust(mg, dens, itf, atn, atc, split2=True, alphas_basis=basis, include_origin=True, remove_large_pts=10.0)(q)
        e2 = float(np.max(np.abs(v2 - vex)))
        if not e2 <= 2e-2:
            bad["robust solver with the NNLS split (split2=True), two centres, vs analytic potential"] = dict(max_abs_error=e2)
        label = "robust solver with the NNLS split matches the analytic potential of core model + smooth Gaussians on two centres (2e-2)"
    elif what == "atom":
        ag = AtomGrid(rg, degrees=[9], rotate=7)       # every shell carries its own random rotation
        # displaced Gaussians on both sides and of both signs: harmonic components of either sign, some of one sign only
        cs, al, cf = [np.zeros(3), np.array([0.0, 0.0, -0.3]), np.array([0.25, 0.0, 0.0])], [1.0, 2.5, 2.0], [1.0, 0.5, -0.4]
        v = po.solve_poisson_bvp(ag, rho(ag.points, cs, al, cf), itf, include_origin=True, remove_large_pts=10.0)(q)
        e1 = float(np.max(np.abs(v - pot(q, cs, al, cf))))
        ag0 = AtomGrid(rg, degrees=[9])              # unrotated shells: harmonic components that vanish or keep one sign do so exactly on this grid
        v0 = po.solve_poisson_bvp(ag0, rho(ag0.points, cs, al, cf), itf, include_origin=False, remove_large_pts=10.0)(q)        # and without the extra mesh point at the origin
        e1 = max(e1, float(np.max(np.abs(v0 - pot(q, cs, al, cf)))))
        # the inward initial-value integration loses accuracy towards the origin (0.5 at r = 0.35, 7e-3 at r = 0.8 on the unchanged tree; not classified here):
        # compared at the points with r >= 1 only
        qf = q[np.linalg.norm(q, axis=1) >= 1.0]
        v = po.solve_poisson_ivp(ag, rho(ag.points, cs[:1], al[:1], cf[:1]), itf, r_interval=(1000, 1e-5))(qf)
        e2 = float(np.max(np.abs(v - pot(qf, cs[:1], al[:1], cf[:1]))))
        if not e1 <= 1e-2:
            bad["atomic grid, BVP, off-centre Gaussians of both signs (l > 0 components)"] = e1
        if not e2 <= 1e-2:
            bad["atomic grid, IVP, centred Gaussian"] = e2
        label = "atomic grid: BVP (two Gaussians, one off-centre) and IVP (centred Gaussian) match erf(sqrt(a) r)/r within 1e-2"
    elif what == "linearity":
        ag = AtomGrid(rg, degrees=[9])
        f1, f2 = rho(ag.points, [np.zeros(3)], [1.0], [1.0]), rho(ag.points, [np.array([0.0, 0.0, 0.3])], [2.5], [1.0])
        S = lambda f: po.solve_poisson_bvp(ag, f, itf, include_origin=True, remove_large_pts=10.0)(q)
        e3 = float(np.max(np.abs(S(f1 + 2 * f2) - S(f1) - 2 * S(f2))))
        if not e3 <= 1e-3:
            bad["V[f1 + 2 f2] - V[f1] - 2 V[f2]"] = e3
        label = "BVP solution is linear in the density (1e-3)"
    else:
        atc, atn = np.array([[0, 0, -0.7], [0, 0, 0.7]]), np.array([1, 1])
        mg = MolGrid(atn, [AtomGrid(rg, degrees=[11], center=c) for c in atc], BeckeWeights(order=3), store=True)
        v = po.solve_poisson_bvp(mg, rho(mg.points, list(atc), [1.2, 0.8], [1.0, 1.0]), itf, include_origin=True, remove_large_pts=10.0)(q)
        e4 = float(np.max(np.abs(v - pot(q, list(atc), [1.2, 0.8], [1.0, 1.0]))))
        if not e4 <= 1e-2:
            bad["two-centre molecular grid, BVP"] = e4
        label = "molecular grid (2 centres): BVP matches the analytic potential within 1e-2"
    (ctx.ok if not bad else ctx.fail)("float code: " + label, detail=str(bad)[:300], key=f"accuracy:{what}", how="ground enumeration (not a solver obligation)", replay=(lambda m: (True, bad)), **({} if not bad else dict(model={})))
    ctx.twins_sat += 1


def jobs(tier):
    js = [Job("atom/bvp/l<=1", job_atom, "bvp", 3, False), Job("atom/bvp/origin-in-grid", job_atom, "bvp", 2, True), Job("atom/bvp/options", job_atom, "bvp", 3, False, True), Job("atom/ivp/l<=1", job_atom, "ivp", 3, False),
          Job("molecular", job_molecular), Job("laplacian", job_laplacian), Job("robust/2", job_robust, 2)]
    js += [Job("ground/robust-core", job_ground_accuracy, "robust-core"), Job("ground/atom", job_ground_accuracy, "atom"), Job("ground/robust-split2", job_ground_accuracy, "robust-split2")]
    if tier == "thorough":
        js += [Job("ground/linearity", job_ground_accuracy, "linearity"), Job("ground/molecule", job_ground_accuracy, "molecule")]
        js += [Job("atom/bvp/l<=2", job_atom, "bvp", 5, False), Job("atom/ivp/l<=2", job_atom, "ivp", 5, False), Job("robust/3", job_robust, 3)]
    only = os.environ.get("SYMGRID_ONLY")
    return [j for j in js if not only or only in j.name]


def main():
    t0 = time.time()
    res = harness.run_jobs(jobs(harness.tier()))
    return harness.finish(
        PROP, res, t0, "DESIGN.md#c16",
        bounds=dict(l="l <= 1 (quick) / 2", atoms="2 (quick) / 3 centres in the robust solver, 3 atoms in the molecular fan-out", radial_nodes="3 symbolic (with and without r = 0)", density="uninterpreted harmonic components / symbolic values"),
        outside=["accuracy statements are not solver questions: sampled on the float code by ground jobs (robust-core exactness, atomic BVP/IVP vs erf potential; thorough: linearity, two-centre molecule)", "the NNLS split (split2=True) is sampled by the ground job ground/robust-split2 only",
                 "AtomGrid.radial_component_splines / interpolation themselves (C09)"],
        assumptions=["solve_ode_bvp / solve_ode_ivp (as imported by poisson.py) and solve_poisson_bvp / coulomb_potential / load_atomic_gaussian_params (as imported by robust_poisson.py) replaced by capturing stubs",
                     "atomic / molecular grids replaced by duck-typed stubs with uninterpreted harmonic components"])


if __name__ == "__main__":
    sys.exit(main())
