"""C18 - multi-domain integration equals the iterated product quadrature (ngrid.py)."""
import sys, time, os, itertools, math
import numpy as np
from symgrid import dag, poly, smt, sym, npproxy, harness
from symgrid.sym import Engine, Sym, real, K, node_of
from symgrid.harness import Job, Ctx

PROP = "C18"


def _mods():
    import grid.ngrid as ng, grid.basegrid as bg
    return ng, bg


def sym_grid(bg, tag, size, dim):
    pts = np.empty((size, dim) if dim > 1 else (size,), dtype=object)
    for idx in np.ndindex(*pts.shape):
        pts[idx] = real(f"p{tag}_" + "_".join(map(str, idx)))
    w = np.empty(size, dtype=object)
    for i in range(size):
        w[i] = real(f"w{tag}_{i}")
    return bg.Grid(pts, w)


def flat(p):
    if isinstance(p, np.ndarray):
        return [node_of(v) for v in p.ravel()]
    return [node_of(p)]


def F_scalar(*pts):
    args = []
    for p in pts:
        args += flat(p)
    return Sym(dag.uf("F", args))


def F_vector(*pts):
    *pre, X = pts
    out = np.empty(len(X), dtype=object)
    for k in range(len(X)):
        out[k] = F_scalar(*pre, X[k])
    return out


def G_scalar(*pts):
    r = K(1)
    for i, p in enumerate(pts):
        r = r * Sym(dag.uf(f"g{i}", flat(p)))
    return r


def G_vector(*pts):
    *pre, X = pts
    out = np.empty(len(X), dtype=object)
    for k in range(len(X)):
        out[k] = G_scalar(*pre, X[k])
    return out


def nested(grids, f):
    """independent oracle: explicit recursion over one node per domain, first domain outermost."""
    def rec(i, chosen, wprod):
        if i == len(grids):
            return wprod * f(*chosen)
        tot = K(0)
        for k in range(grids[i].size):
            tot = tot + rec(i + 1, chosen + [grids[i].points[k]], wprod * grids[i].weights[k])
        return tot
    return rec(0, [], K(1))


def make_replay(shape, repeat, mode, chunk):
    def replay(m):
        ng, bg = _mods()
        rng = np.random.default_rng(12345)
        grids = []
        for t, (size, dim) in enumerate(shape):
            pts = np.array([[float(m.get(f"p{t}_{i}_{d}" if dim > 1 else f"p{t}_{i}", rng.normal())) for d in range(dim)] for i in range(size)])
            if dim == 1:
                pts = pts[:, 0]
            w = np.array([float(m.get(f"w{t}_{i}", rng.normal())) for i in range(size)])
            grids.append(bg.Grid(pts, w))
        coef = iter(np.sqrt(np.arange(2, 200)))

        def f(*pts):
            c = iter(np.sqrt(np.arange(2, 200)))
            tot = 0.0
            for p in pts:
                for v in np.atleast_1d(p).ravel():
                    tot = tot + next(c) * v
            return math.cos(tot) + tot

        def fvec(*pts):
            *pre, X = pts
            return np.array([f(*pre, x) for x in X])
        mg = ng.MultiDomainGrid(grids, repeat)
        doms = grids * repeat if repeat else grids
        ref = 0.0
        for combo in itertools.product(*[range(g.size) for g in doms]):
            ref += math.prod(g.weights[k] for g, k in zip(doms, combo)) * f(*[g.points[k] for g, k in zip(doms, combo)])
        try:
            if mode == "vec":
                got = mg.integrate(fvec)
            elif mode == "cached":
                table = {}

                def fc(*pts):
                    X = pts[-1]
                    if "t" not in table:
                        table["t"] = np.array([f(x) for x in X])
                    return table["t"]
                got = mg.integrate(fc)
                ref = 0.0
                for combo in itertools.product(*[range(g.size) for g in doms]):
                    ref += math.prod(g.weights[k] for g, k in zip(doms, combo)) * f(doms[-1].points[combo[-1]])
            elif mode == "hist":
                # one object, used repeatedly: enumerate weights and points, integrate point by point twice, then vectorised
                n1, n2 = len(list(mg.weights)), len(list(mg.weights))
                a1 = mg.integrate(f, non_vectorized=True, integration_chunk_size=chunk)
                a2 = mg.integrate(f, non_vectorized=True, integration_chunk_size=chunk)
                a3 = mg.integrate(fvec) if len(doms) > 1 else a2
                got = a2
                if n1 != n2 or abs(a1 - ref) > 1e-9 * max(1, abs(ref)) or abs(a3 - ref) > 1e-9 * max(1, abs(ref)):
                    got = float("nan")
                    ref_info = dict(weights_enumerated=[n1, n2], first=float(a1), second=float(a2), vectorised_after=float(a3))
            else:
                got = mg.integrate(f, non_vectorized=True, integration_chunk_size=chunk)
        except Exception as ex:
            return True, dict(shape=shape, repeat=repeat, mode=mode, chunk=chunk, raised=f"{type(ex).__name__}: {ex}")
        info = dict(shape=shape, repeat=repeat, mode=mode, chunk=chunk, got=float(got), nested_sum=float(ref), size=int(mg.size))
        bad = not abs(got - ref) <= 1e-9 * max(1, abs(ref))
        n_expected = math.prod(g.size for g in doms)
        bad = bad or int(mg.size) != n_expected or len(list(mg.points)) != n_expected or len(list(mg.weights)) != n_expected
        return bad, info
    return replay


def job(ctx: Ctx, shape, repeat):
    ng, bg = _mods()
    npproxy.install(ng)
    e = ctx.engine
    ctx.encoded(ng.MultiDomainGrid.__init__, ng.MultiDomainGrid.integrate, ng.MultiDomainGrid.size.fget, ng.MultiDomainGrid.points.fget,
                ng.MultiDomainGrid.weights.fget, ng.MultiDomainGrid.num_domains.fget, ng._chunked_iterator, bg.Grid.integrate)
    grids = [sym_grid(bg, t, size, dim) for t, (size, dim) in enumerate(shape)]
    doms = grids * repeat if repeat else grids
    total = math.prod(g.size for g in doms)
    ctx.bounds.update(dict(domains=len(doms), sizes=[g.size for g in doms], dims=[d for _, d in shape], repeated=bool(repeat), chunk_sizes=f"1..{total + 1}"))
    key = "MultiDomainGrid" + (":repeated" if repeat else "")

    def build():
        return ng.MultiDomainGrid(grids, repeat)
    want = nested(doms, F_scalar)
    want_sep = nested(doms, G_scalar)
    single = [sum((g.weights[k] * Sym(dag.uf(f"g{i}", flat(g.points[k]))) for k in range(g.size)), K(0)) for i, g in enumerate(doms)]
    prod_single = K(1)
    for s in single:
        prod_single = prod_single * s

    def run(fn):
        paths = e.run(fn)
        ctx.paths += len(paths)
        return paths

    # size / num_domains / enumeration order
    def observe():
        mg = build()
        return mg.size, mg.num_domains, list(mg.points), list(mg.weights)
    for p in run(observe):
        if p.exc is not None:
            ctx.fail("size/points/weights:no-exception", f"{type(p.exc).__name__}: {p.exc}", key=key + ":raises", replay=make_replay(shape, repeat, "vec", 1))
            continue
        size, nd, pts, ws = p.result
        R = make_replay(shape, repeat, "vec", 1)
        (ctx.ok if int(size) == total else ctx.fail)(f"size == product of domain sizes ({total})", detail=str(size), key=key + ":size", replay=R)
        (ctx.ok if nd == len(doms) else ctx.fail)("num_domains", detail=str(nd), key=key + ":size", replay=R)
        (ctx.ok if len(pts) == total and len(ws) == total else ctx.fail)("points and weights enumerate size entries", detail=f"{len(pts)},{len(ws)}", key=key + ":enumeration", replay=R)
        for n, combo in enumerate(itertools.product(*[range(g.size) for g in doms])):
            if n >= len(pts) or n >= len(ws):
                break
            wexp = K(1)
            for g, k in zip(doms, combo):
                wexp = wexp * g.weights[k]
            ctx.eq(f"weights[{n}] == product of weights {combo} (last domain fastest)", ws[n], wexp, p.pc, key=key + ":enumeration", replay=R)
            for g, k, got in zip(doms, combo, pts[n]):
                for a, b in zip(flat(got), flat(g.points[k])):
                    ctx.eq(f"points[{n}] component == node {combo}", Sym(a), Sym(b), p.pc, key=key + ":enumeration", replay=R)
    # vectorised
    for label, fv, fs, expect in (("F", F_vector, F_scalar, want), ("separable", G_vector, G_scalar, want_sep)):
        for p in run(lambda: build().integrate(fv if len(doms) > 1 else (lambda X: np.array([fs(x) for x in X], dtype=object)))):
            if p.exc is not None:
                ctx.fail(f"vectorised[{label}]:no-exception", f"{type(p.exc).__name__}: {p.exc}", key=key + ":raises", replay=make_replay(shape, repeat, "vec", 1))
                continue
            ctx.twin(p.pc)
            ctx.eq(f"integrate(vectorised {label}) == nested product sum", p.result, expect, p.pc, key=key + ":vectorised", replay=make_replay(shape, repeat, "vec", 1))
        for chunk in range(1, total + 2):
            for p in run(lambda: build().integrate(fs, non_vectorized=True, integration_chunk_size=chunk)):
                if p.exc is not None:
                    ctx.fail(f"chunked[{label},{chunk}]:no-exception", f"{type(p.exc).__name__}: {p.exc}", key=key + ":raises", replay=make_replay(shape, repeat, "pt", chunk))
                    continue
                ctx.eq(f"integrate(point-by-point {label}, chunk={chunk}) == nested product sum", p.result, expect, p.pc, key=key + ":chunked",
                       replay=make_replay(shape, repeat, "pt", chunk))
    # integrand that hands back one cached array (depends on the last domain only): must not be modified between calls
    if len(doms) > 1:
        cache = {}

        def H_cached(*pts):
            X = pts[-1]
            if "t" not in cache:
                cache["t"] = np.array([Sym(dag.uf("H", flat(x))) for x in X], dtype=object)
            return cache["t"]
        want_h = nested(doms, lambda *pts: Sym(dag.uf("H", flat(pts[-1]))))

        def run_cached():
            cache.clear()
            return build().integrate(H_cached)
        for p in run(run_cached):
            if p.exc is not None:
                ctx.fail("vectorised[cached array]:no-exception", f"{type(p.exc).__name__}: {p.exc}", key=key + ":raises", replay=make_replay(shape, repeat, "cached", 1))
                continue
            ctx.eq("integrate(vectorised, integrand returns one cached array) == nested product sum", p.result, want_h, p.pc, key=key + ":cached-integrand",
                   replay=make_replay(shape, repeat, "cached", 1))
    ctx.eq("separable integrand: nested sum == product of single-grid integrals", want_sep, prod_single, (), key=key + ":separable")
    # history on ONE object: enumerations and integrations in sequence must each give the full answer again
    RH = make_replay(shape, repeat, "hist", 2)

    def history():
        mg = build()
        w1, w2 = list(mg.weights), list(mg.weights)
        p1 = list(mg.points)
        a1 = mg.integrate(F_scalar, non_vectorized=True, integration_chunk_size=2)
        a2 = mg.integrate(F_scalar, non_vectorized=True, integration_chunk_size=total + 1)
        a3 = mg.integrate(F_vector) if len(doms) > 1 else a2
        a4 = mg.integrate(F_scalar, non_vectorized=True, integration_chunk_size=1)
        return w1, w2, p1, list(mg.points), a1, a2, a3, a4
    for p in run(history):
        if p.exc is not None:
            ctx.fail("history on one object:no-exception", f"{type(p.exc).__name__}: {p.exc}", key=key + ":history", replay=RH, model={})
            continue
        w1, w2, p1, p2, a1, a2, a3, a4 = p.result
        ok_enum = len(w1) == total and len(w2) == total and len(p1) == total and len(p2) == total and all(node_of(a) is node_of(b) for a, b in zip(w1, w2))
        (ctx.ok if ok_enum else ctx.fail)("weights and points can be enumerated repeatedly on one object (same full sequence each time)", detail=f"{len(w1)},{len(w2)},{len(p1)},{len(p2)}", key=key + ":history", replay=RH,
                                          **({} if ok_enum else dict(model={})))
        for label, a in (("first point-by-point", a1), ("second point-by-point", a2), ("vectorised after point-by-point", a3), ("point-by-point after vectorised", a4)):
            ctx.eq(f"history on one object: {label} integration == nested product sum", a, want, p.pc, key=key + ":history", replay=RH)


def configs(tier):
    out = []
    mx = 3 if tier == "quick" else 4
    # (size, dim) per listed grid ; repeat
    out += [([(s, 1)], None) for s in (1, 2, 3)]
    out += [([(2, 1), (3, 3)], None), ([(3, 3), (2, 1)], None), ([(1, 1), (2, 1)], None), ([(2, 1), (2, 1), (2, 3)], None), ([(3, 1), (1, 3), (2, 1)], None)]
    out += [([(2, 1)], 1), ([(2, 1)], 2), ([(2, 3)], 3), ([(3, 1)], 2)]
    if tier == "thorough":
        out += [([(4, 1), (3, 1)], None), ([(2, 3), (3, 1), (2, 3)], None), ([(3, 1)], 3), ([(4, 3)], 2), ([(2, 1), (2, 1), (2, 1), (2, 1)], None), ([(2, 1)], 4), ([(mx, 3), (mx, 1)], None)]
    return out


def jobs(tier):
    js = [Job(f"grids={shape}/repeat={rep}", job, shape, rep) for shape, rep in configs(tier)]
    only = os.environ.get("SYMGRID_ONLY")
    return [j for j in js if not only or only in j.name]


def main():
    t0 = time.time()
    res = harness.run_jobs(jobs(harness.tier()))
    return harness.finish(
        PROP, res, t0, "DESIGN.md#c18",
        bounds=dict(domains="1..3 (quick) / 1..4 (thorough)", sizes="1..3 / 1..4 nodes per domain, all symbolic points and weights", dims="1-D and 3-D points mixed",
                    chunk="every integration_chunk_size 1..size+1", integrand="uninterpreted F of all coordinates; product of uninterpreted g_i for the separable clause"),
        outside=["grids larger than the bound (the code path does not depend on the size)", "IEEE rounding / summation order"],
        assumptions=["the integrand callback is a pure function of its arguments"])


if __name__ == "__main__":
    sys.exit(main())
