"""C08 - real spherical harmonics, solid harmonics and spherical<->Cartesian conversions (utils.py)."""
import sys, time, os, itertools, math
import numpy as np
from fractions import Fraction
from symgrid import dag, poly, smt, sym, npproxy, harness
from symgrid.sym import Engine, Sym, real, K, node_of, PI
from symgrid.angles import Ang
from symgrid.harness import Job, Ctx
from harness.C03 import unpatched
from harness.C14 import solid_harmonic, horton_pure_rows

PROP = "C08"


def _mod():
    import grid.utils as ut
    return ut


def arr(vals, shape=None):
    a = np.empty(len(vals), dtype=object)
    a[:] = vals
    return a if shape is None else a.reshape(shape)


def d_angle(expr, ang):
    """derivative of an expression in (cos a, sin a) with respect to the angle a"""
    n = node_of(expr)
    return Sym(dag.add(dag.mul(dag.diff(n, ang.c.n), dag.neg(ang.s.n)), dag.mul(dag.diff(n, ang.s.n), ang.c.n)))


def legendre(l, x):
    p0, p1 = K(1), x
    if l == 0:
        return p0
    for k in range(1, l):
        p0, p1 = p1, ((2 * k + 1) * x * p1 - k * p0) / (k + 1)
    return p1


def float_Y(ut, lmax, theta, phi):
    return np.asarray(ut.generate_real_spherical_harmonics(lmax, np.array([theta]), np.array([phi])), dtype=float)[:, 0]


def ang_value(m, name, default):
    c, s = float(m.get(f"cos_{name}", math.cos(default))), float(m.get(f"sin_{name}", math.sin(default)))
    return math.atan2(s, c)


def job_harmonics(ctx: Ctx, lmax):
    ut = _mod()
    npproxy.install(ut)
    e = ctx.engine
    sym.Engine.cur = e
    ctx.encoded(ut.generate_real_spherical_harmonics)
    ta, pa, tb, pb = Ang.free("ta", e), Ang.free("pa", e), Ang.free("tb", e), Ang.free("pb", e)
    ctx.bounds.update(dict(l_max=lmax, directions="two arbitrary directions (unit-circle pairs: poles and angles outside the principal range included)"))
    key = "real_spherical_harmonics"
    Y = ut.generate_real_spherical_harmonics(lmax, arr([ta, tb]), arr([pa, pb]))
    rows = horton_pure_rows(lmax)

    def rp(m):
        with unpatched(ut):
            th, ph = ang_value(m, "ta", 0.7), ang_value(m, "pa", 1.1)
            th2, ph2 = ang_value(m, "tb", -0.4), ang_value(m, "pb", 2.0)
            Ya, Yb = float_Y(ut, lmax, th, ph), float_Y(ut, lmax, th2, ph2)
            x, y, z = math.sin(ph) * math.cos(th), math.sin(ph) * math.sin(th), math.cos(ph)
            cg = math.sin(ph) * math.sin(ph2) * math.cos(th - th2) + math.cos(ph) * math.cos(ph2)
            bad = {}
            for k, (l, mm, kind) in enumerate(rows):
                want = float(dag.evalf(node_of(solid_harmonic(l, mm, kind, K(Fraction(x).limit_denominator(10 ** 12)), K(Fraction(y).limit_denominator(10 ** 12)), K(Fraction(z).limit_denominator(10 ** 12)))), {})) \
                    * math.sqrt((2 * l + 1) / (4 * math.pi)) if l <= 3 else None
                if want is not None and abs(Ya[k] - want) > 1e-9:
                    bad[f"Y[{l},{mm},{kind}]"] = dict(returned=float(Ya[k]), definition=want)
            for l in range(lmax + 1):
                sA = sum(Ya[k] * Yb[k] for k, r_ in enumerate(rows) if r_[0] == l)
                leg = float(np.polynomial.legendre.legval(cg, [0] * l + [1])) * (2 * l + 1) / (4 * math.pi)
                if abs(sA - leg) > 1e-9:
                    bad[f"addition theorem l={l}"] = dict(sum=sA, expected=leg)
            return bool(bad), dict(theta_a=th, phi_a=ph, theta_b=th2, phi_b=ph2, mismatches=bad)
    (ctx.ok if Y.shape == ((lmax + 1) ** 2, 2) else ctx.fail)("(l_max+1)^2 rows", detail=str(Y.shape), key=key, replay=rp)
    cosg = pa.s * pb.s * (ta.c * tb.c + ta.s * tb.s) + pa.c * pb.c
    x, y, z = pa.s * ta.c, pa.s * ta.s, pa.c
    for l in range(lmax + 1):
        idx = [k for k, r_ in enumerate(rows) if r_[0] == l]
        tot = K(0)
        for k in idx:
            tot = tot + Y[k, 0] * Y[k, 1]
        ctx.eq(f"addition theorem l={l}: sum_m Y_lm(a) Y_lm(b) == (2l+1)/(4 pi) P_l(cos gamma)", tot, (2 * l + 1) / (4 * PI) * legendre(l, cosg), (), replay=rp, key=key + ":addition")
        for k in idx:
            _, mm, kind = rows[k]
            Yk = Y[k, 0]
            ctx.eq(f"row {k} = (l={l}, m={mm}, {kind}): d^2Y/dtheta^2 == -m^2 Y", d_angle(d_angle(Yk, ta), ta), -(mm * mm) * Yk, (), replay=rp, key=key + ":order")
            # Laplace-Beltrami eigen-equation (multiplied by sin^2 phi): harmonicity of r^l Y_lm
            lb = pa.s * pa.s * d_angle(d_angle(Yk, pa), pa) + pa.s * pa.c * d_angle(Yk, pa) + d_angle(d_angle(Yk, ta), ta) + l * (l + 1) * pa.s * pa.s * Yk
            ctx.eq(f"row {k}: angular Laplacian eigenvalue -l(l+1)  (r^l Y_lm is harmonic)", lb, K(0), (), replay=rp, key=key + ":harmonic")
            # cos-type before sin-type, fixed at theta = 0
            at0 = Sym(dag.subst(node_of(Yk), {ta.c.n: dag.ONE, ta.s.n: dag.ZERO}))
            d0 = Sym(dag.subst(node_of(d_angle(Yk, ta)), {ta.c.n: dag.ONE, ta.s.n: dag.ZERO}))
            if kind == "c":
                ctx.eq(f"row {k} is the cos-type function (dY/dtheta = 0 at theta = 0)", d0, K(0), (), replay=rp, key=key + ":order")
            else:
                ctx.eq(f"row {k} is the sin-type function (Y = 0 at theta = 0)", at0, K(0), (), replay=rp, key=key + ":order")
            if l <= 3:
                ctx.eq(f"row {k}: Y_lm == sqrt((2l+1)/(4 pi)) * R_lm(sin phi cos theta, sin phi sin theta, cos phi)  (definition, sign, normalisation)",
                       Yk, ((2 * l + 1) / (4 * PI)).sqrt() * solid_harmonic(l, mm, kind, x, y, z), (), replay=rp, key=key + ":definition")
    # poles
    for cpole, label in ((1, "phi = 0"), (-1, "phi = pi")):
        Yp = ut.generate_real_spherical_harmonics(lmax, arr([ta]), arr([Ang(K(cpole), K(0))]))
        for k, (l, mm, kind) in enumerate(rows):
            want = ((2 * l + 1) / (4 * PI)).sqrt() * (cpole ** l) if mm == 0 else K(0)
            ctx.eq(f"{label}: row {k}", Yp[k, 0], want, (), replay=rp, key=key + ":poles")
    ctx.twin(())


def job_solid(ctx: Ctx, lmax):
    ut = _mod()
    npproxy.install(ut)
    e = ctx.engine
    sym.Engine.cur = e
    ctx.encoded(ut.solid_harmonics)
    t, p = Ang.free("t", e), Ang.free("p", e)
    r = real("r")
    e.assume(r >= 0)
    rows = horton_pure_rows(lmax)
    key = "solid_harmonics"

    def rp(m):
        with unpatched(ut):
            th, ph, rr = ang_value(m, "t", 0.3), ang_value(m, "p", 1.2), float(m.get("r", 1.7))
            S = np.asarray(ut.solid_harmonics(lmax, np.array([[rr, th, ph]])), dtype=float)[:, 0]
            Yv = float_Y(ut, lmax, th, ph)
            want = np.array([math.sqrt(4 * math.pi / (2 * l + 1)) * rr ** l * Yv[k] for k, (l, _, _) in enumerate(rows)])
            return not np.allclose(S, want, rtol=1e-10, atol=1e-12), dict(r=rr, theta=th, phi=ph, returned=S.tolist(), expected=want.tolist())
    pts = np.empty((1, 3), dtype=object)
    pts[0] = [r, t, p]
    for q in e.run(lambda: (ut.solid_harmonics(lmax, pts), ut.generate_real_spherical_harmonics(lmax, arr([t]), arr([p])))):
        ctx.paths += 1
        if q.exc is not None:
            ctx.fail("solid_harmonics returns", f"{type(q.exc).__name__}: {q.exc}", key=key, replay=rp, model=ctx.model_for(q.pc) or {})
            continue
        S, Y = q.result
        for k, (l, mm, kind) in enumerate(rows):
            ctx.eq(f"row {k}: solid harmonic == sqrt(4 pi/(2l+1)) r^l Y_lm", S[k, 0], (4 * PI / (2 * l + 1)).sqrt() * r ** l * Y[k, 0], q.pc, replay=rp, key=key)
    ctx.twin(())


def job_cart_to_sph(ctx: Ctx, with_center):
    ut = _mod()
    npproxy.install(ut)
    e = ctx.engine
    ctx.encoded(ut.convert_cart_to_sph)
    P = arr([real(f"x{a}") for a in range(3)], (1, 3))
    C = arr([real(f"c{a}") for a in range(3)]) if with_center else None
    key = "convert_cart_to_sph"
    ctx.bounds.update(dict(points="1 symbolic point (generic position, on the z-axis and at the centre are forked)", centre="symbolic" if with_center else "None"))

    def rp(m):
        with unpatched(ut):
            pt = np.array([[float(m.get(f"x{a}", 0.3 * a - 0.2)) for a in range(3)]])
            cc = np.array([float(m.get(f"c{a}", 0.1 * a + 0.4)) for a in range(3)]) if with_center else None
            out = ut.convert_cart_to_sph(pt, cc)
            r_, t_, p_ = out[0]
            back = (cc if with_center else 0) + r_ * np.array([math.sin(p_) * math.cos(t_), math.sin(p_) * math.sin(t_), math.cos(p_)])
            bad = (not np.all(np.isfinite(out))) or (not np.allclose(back, pt[0], atol=1e-12)) or r_ < 0
            return bool(bad), dict(point=pt.tolist(), center=None if cc is None else cc.tolist(), spherical=out.tolist(), reconstructed=np.asarray(back).tolist())
    for q in e.run(lambda: ut.convert_cart_to_sph(P, C)):
        ctx.paths += 1
        if q.exc is not None:
            ctx.fail("convert_cart_to_sph returns", f"{type(q.exc).__name__}: {q.exc}", key=key, replay=rp, model=ctx.model_for(q.pc) or {})
            continue
        if ctx.twin(q.pc) == "unsat":
            continue
        r_, t_, p_ = q.result[0]
        if not isinstance(t_, Ang):
            t_ = Ang(Sym(node_of(t_)).cos() if False else K(1), K(0)) if (not isinstance(t_, sym.NaNMarker) and node_of(t_) is dag.ZERO) else t_
        if not isinstance(p_, Ang):
            p_ = Ang(K(1), K(0)) if (not isinstance(p_, sym.NaNMarker) and node_of(p_) is dag.ZERO) else p_
        if isinstance(r_, sym.NaNMarker) or not isinstance(t_, Ang) or not isinstance(p_, Ang):
            ctx.fail("spherical coordinates are finite numbers (phi = 0 by convention at the centre)", detail=f"r={r_!r} theta={t_!r} phi={p_!r}", key=key, replay=rp, model=ctx.model_for(q.pc) or {})
            continue
        ctx.holds("r >= 0", r_ >= 0, q.pc, replay=rp, key=key)
        back = [r_ * p_.s * t_.c, r_ * p_.s * t_.s, r_ * p_.c]
        for a in range(3):
            ctx.eq(f"centre + r (sin phi cos theta, sin phi sin theta, cos phi) reproduces the point (component {a})", back[a] + (C[a] if with_center else 0), P[0, a], q.pc, replay=rp, key=key)
        ctx.holds("phi in [0, pi] (sin phi >= 0)", p_.s >= 0, q.pc, replay=rp, key=key)


def job_jacobian(ctx: Ctx):
    ut = _mod()
    npproxy.install(ut)
    e = ctx.engine
    sym.Engine.cur = e
    ctx.encoded(ut.convert_derivative_from_spherical_to_cartesian)
    t, p = Ang.free("t", e), Ang.free("p", e)
    r = real("r")
    dr, dt, dp = real("fr"), real("ft"), real("fp")
    e.assume(r >= 0, p.s >= 0)
    key = "spherical_to_cartesian_derivative"

    def rp(m):
        with unpatched(ut):
            th, ph, rr = ang_value(m, "t", 0.3), ang_value(m, "p", 1.2), float(m.get("r", 1.7))
            g = [float(m.get(n, d)) for n, d in (("fr", 0.5), ("ft", -1.0), ("fp", 2.0))]
            got = ut.convert_derivative_from_spherical_to_cartesian(g[0], g[1], g[2], rr, th, ph)
            # independent: numerical Jacobian of (r, theta, phi) w.r.t. (x, y, z) through convert_cart_to_sph
            x0 = rr * np.array([math.sin(ph) * math.cos(th), math.sin(ph) * math.sin(th), math.cos(ph)])
            h = 1e-6
            J = np.zeros((3, 3))
            for i in range(3):
                d = np.zeros(3)
                d[i] = h
                q1, q0 = ut.convert_cart_to_sph(np.array([x0 + d]))[0], ut.convert_cart_to_sph(np.array([x0 - d]))[0]
                J[i] = (q1 - q0) / (2 * h)
            want = J @ np.array(g)
            return (rr > 1e-6 and abs(math.sin(ph)) > 1e-3) and not np.allclose(got, want, rtol=1e-5, atol=1e-7), dict(r=rr, theta=th, phi=ph, returned=np.asarray(got).tolist(), chain_rule=want.tolist())
    xyz = [r * p.s * t.c, r * p.s * t.s, r * p.c]
    # M[k][q] = d x_k / d q  for q in (r, theta, phi)
    M = [[Sym(dag.diff(node_of(xyz[k]), r.n)), d_angle(xyz[k], t), d_angle(xyz[k], p)] for k in range(3)]
    for q in e.run(lambda: [ut.convert_derivative_from_spherical_to_cartesian(*unit, r, t, p) for unit in ((1, 0, 0), (0, 1, 0), (0, 0, 1))] +
                   [ut.convert_derivative_from_spherical_to_cartesian(dr, dt, dp, r, t, p)]):
        ctx.paths += 1
        if q.exc is not None:
            ctx.fail("convert_derivative_from_spherical_to_cartesian returns", f"{type(q.exc).__name__}: {q.exc}", key=key, replay=rp, model=ctx.model_for(q.pc) or {})
            continue
        if ctx.twin(q.pc) == "unsat":
            continue
        cols, full = q.result[:3], q.result[3]
        generic = e.feasible(q.pc, (r > K(Fraction(1, 10))).f) and e.feasible(q.pc, (p.s > K(Fraction(1, 10))).f)
        J = [[cols[c_][i] for c_ in range(3)] for i in range(3)]      # J[i][q] = d q / d x_i as used by the code
        for i in range(3):
            ctx.eq(f"linear in the spherical derivatives (component {i})", full[i], J[i][0] * dr + J[i][1] * dt + J[i][2] * dp, q.pc, replay=rp, key=key)
        if generic:
            for i in range(3):
                for k in range(3):
                    ent = K(0)
                    for c_ in range(3):
                        ent = ent + J[i][c_] * M[k][c_]
                    ctx.eq(f"chain rule: sum_q (dq/dx_{i}) (dx_{k}/dq) == delta_{i}{k}", ent, K(int(i == k)), q.pc, assume=[r > 0, p.s > 0], replay=rp, key=key)
        else:
            for i in range(3):
                ctx.eq(f"degenerate point (r ~ 0 or phi ~ 0): angular columns are dropped, radial column kept (component {i})", J[i][0], M[i][0], q.pc, replay=rp, key=key + ":degenerate")


def complex_Y(l, m, polar, azim):
    """complex spherical harmonic Y_l^m with Condon-Shortley phase (the documented definition of scipy.special.sph_harm_y), built
    independently from the associated-Legendre recurrence on (cos, sin) of the polar angle"""
    from symgrid.angles import SymComplex
    if abs(m) > l:
        return SymComplex(K(0), K(0))
    ma = abs(m)
    x, sn = polar.c, polar.s
    pmm = K(1)
    for k in range(1, ma + 1):
        pmm = pmm * (-(2 * k - 1)) * sn
    if l == ma:
        plm = pmm
    else:
        pm1 = x * (2 * ma + 1) * pmm
        if l == ma + 1:
            plm = pm1
        else:
            a_, b_ = pmm, pm1
            for ll in range(ma + 2, l + 1):
                a_, b_ = b_, (x * (2 * ll - 1) * b_ - (ll + ma - 1) * a_) / (ll - ma)
            plm = b_
    norm = (K(Fraction((2 * l + 1) * math.factorial(l - ma), math.factorial(l + ma))) / (4 * PI)).sqrt()
    e = azim._mult(ma)
    val = SymComplex(norm * plm * e.c, norm * plm * e.s)
    if m < 0:       # Y_l^{-m} = (-1)^m conj(Y_l^m)
        val = SymComplex(val.re, -val.im) * ((-1) ** ma)
    return val


class SciPyDomainError(Exception):
    """the stub's precondition: scipy.special.sph_harm_y documents its polar argument as lying in [0, pi]; outside it the compiled routine does
    not follow the analytic continuation of the definition (it evaluates through |sin|), so a call there is reported instead of being modelled."""


def _check_polar_domain(polar):
    for a_ in np.asarray(polar, dtype=object).ravel():
        r_ = getattr(a_, "rng", None)
        if isinstance(a_, Ang) and (r_ is None or r_[0] < -1e-12 or r_[1] > math.pi + 1e-12):
            raise SciPyDomainError(f"scipy.special.sph_harm_y called with a polar angle whose representative is not known to lie in [0, pi] (declared range {r_})")


def install_scipy_stubs(ut):
    def sph_harm_y(l, m, polar, azim):
        _check_polar_domain(polar)
        return arr([complex_Y(int(l), int(m), polar[k], azim[k]) for k in range(len(polar))])

    def sph_harm_y_all(lmax, mmax, polar, azim):
        _check_polar_domain(polar)
        out = np.empty((lmax + 1, 2 * mmax + 1, len(polar)), dtype=object)
        for l in range(lmax + 1):
            for mi in range(2 * mmax + 1):
                m = mi if mi <= mmax else mi - (2 * mmax + 1)
                for k in range(len(polar)):
                    out[l, mi, k] = complex_Y(l, m, polar[k], azim[k])
        return out
    ut.sph_harm_y, ut.sph_harm_y_all = sph_harm_y, sph_harm_y_all


def job_derivative(ctx: Ctx, lmax):
    ut = _mod()
    npproxy.install(ut)
    install_scipy_stubs(ut)
    e = ctx.engine
    sym.Engine.cur = e
    ctx.encoded(ut.generate_derivative_real_spherical_harmonics, ut.generate_real_spherical_harmonics_scipy)
    import math
    t, p = Ang.free("t", e), Ang.free("p", e)
    e.assume(p.s > K(Fraction(1, 100)))       # away from the poles
    p.rng = (0.0, math.pi)                    # representative of the polar angle declared inside the principal range (code may compare phi with 0 and pi)
    key = "derivative_real_spherical_harmonics"
    ctx.bounds.update(dict(l_max=lmax, angles="arbitrary azimuth, polar angle away from the poles (sin phi > 0.01)"))
    rows = horton_pure_rows(lmax)

    def rp(m):
        with unpatched(ut):
            import importlib
            ut2 = importlib.reload(importlib.import_module("grid.utils"))
            th, ph = ang_value(m, "t", 0.7), ang_value(m, "p", 1.1)
            ph = abs(ph)
            D = np.asarray(ut2.generate_derivative_real_spherical_harmonics(lmax, np.array([th]), np.array([ph])), float)[:, :, 0]
            h = 1e-6
            f = lambda a, b: float_Y(ut2, lmax, a, b)
            dth = (f(th + h, ph) - f(th - h, ph)) / (2 * h)
            dph = (f(th, ph + h) - f(th, ph - h)) / (2 * h)
            Ys, Yr = np.asarray(ut2.generate_real_spherical_harmonics_scipy(lmax, np.array([th]), np.array([ph])), float)[:, 0], f(th, ph)
            bad = not np.allclose(D[0], dth, atol=1e-6) or not np.allclose(D[1], dph, atol=1e-6) or not np.allclose(Ys, Yr, atol=1e-10)
            install_scipy_stubs(ut)
            return bad, dict(theta=th, phi=ph, d_theta=D[0].tolist(), finite_difference_theta=dth.tolist(), d_phi=D[1].tolist(), finite_difference_phi=dph.tolist())
    for q in e.run(lambda: (ut.generate_real_spherical_harmonics(lmax, arr([t]), arr([p])), ut.generate_derivative_real_spherical_harmonics(lmax, arr([t]), arr([p])),
                            ut.generate_real_spherical_harmonics_scipy(lmax, arr([t]), arr([p])))):
        ctx.paths += 1
        if q.exc is not None:
            ctx.fail("harmonics routines evaluate", f"{type(q.exc).__name__}: {str(q.exc)[:200]}", key=key, replay=rp, model=ctx.model_for(q.pc) or {})
            continue
        if ctx.twin(q.pc) == "unsat":
            continue
        Y, D, Ysp = q.result
        for k, (l, mm, kind) in enumerate(rows):
            ctx.eq(f"row {k} (l={l}, m={mm}{kind}): SciPy-based implementation == recursion", Ysp[k, 0], Y[k, 0], q.pc, replay=rp, key="real_spherical_harmonics_scipy")
            ctx.eq(f"row {k}: d/dtheta routine == dY/dtheta", D[0, k, 0], d_angle(Y[k, 0], t), q.pc, replay=rp, key=key + ":theta")
            ctx.eq(f"row {k}: d/dphi routine == dY/dphi (away from the poles)", D[1, k, 0], d_angle(Y[k, 0], p), q.pc, assume=[p.s > 0], replay=rp, key=key + ":phi")


def job_scipy_outside(ctx: Ctx, lmax, side):
    """the SciPy-based implementation for a polar angle whose representative lies outside [0, pi] (below 0 / between pi and 2 pi): still the recursion's value."""
    import math
    ut = _mod()
    npproxy.install(ut)
    install_scipy_stubs(ut)
    e = ctx.engine
    sym.Engine.cur = e
    ctx.encoded(ut.generate_real_spherical_harmonics_scipy, ut.generate_real_spherical_harmonics, ut.generate_derivative_real_spherical_harmonics)
    t, p = Ang.free("t", e), Ang.free("p", e)
    if side == "negative":
        p.rng = (-math.pi, 0.0)
        e.assume(p.s < K(Fraction(-1, 100)))
    else:
        p.rng = (math.pi, 2 * math.pi)
        e.assume(p.s < K(Fraction(-1, 100)))
    rows = horton_pure_rows(lmax)

    def rp(m):
        with unpatched(ut):
            import importlib
            ut2 = importlib.reload(importlib.import_module("grid.utils"))
            th, ph = ang_value(m, "t", 0.7), ang_value(m, "p", -1.1)
            ph = -abs(ph) if side == "negative" else 2 * math.pi - abs(ph)
            a = np.asarray(ut2.generate_real_spherical_harmonics(lmax, np.array([th]), np.array([ph])), float)[:, 0]
            b = np.asarray(ut2.generate_real_spherical_harmonics_scipy(lmax, np.array([th]), np.array([ph])), float)[:, 0]
            D = np.asarray(ut2.generate_derivative_real_spherical_harmonics(lmax, np.array([th]), np.array([ph])), float)[:, :, 0]
            h = 1e-6
            f = lambda a_, b_: float_Y(ut2, lmax, a_, b_)
            dth, dph = (f(th + h, ph) - f(th - h, ph)) / (2 * h), (f(th, ph + h) - f(th, ph - h)) / (2 * h)
            install_scipy_stubs(ut)
            bad = not np.allclose(a, b, atol=1e-10) or not np.allclose(D[0], dth, atol=1e-6) or not np.allclose(D[1], dph, atol=1e-6)
            return bad, dict(theta=th, phi=ph, recursion=a.tolist(), scipy_based=b.tolist(), d_phi=D[1].tolist(), finite_difference_phi=dph.tolist())
    for q in e.run(lambda: (ut.generate_real_spherical_harmonics(lmax, arr([t]), arr([p])), ut.generate_real_spherical_harmonics_scipy(lmax, arr([t]), arr([p])),
                            ut.generate_derivative_real_spherical_harmonics(lmax, arr([t]), arr([p])))):
        ctx.paths += 1
        if q.exc is not None:
            ctx.fail("harmonics routines evaluate", f"{type(q.exc).__name__}: {str(q.exc)[:200]}", key="real_spherical_harmonics_scipy:outside", replay=rp, model=ctx.model_for(q.pc) or {})
            continue
        if ctx.twin(q.pc) == "unsat":
            continue
        Y, Ysp, D = q.result
        for k, (l, mm, kind) in enumerate(rows):
            ctx.eq(f"row {k} (l={l}, m={mm}{kind}): SciPy-based implementation == recursion for a polar angle {side} of the principal range", Ysp[k, 0], Y[k, 0], q.pc, replay=rp, key="real_spherical_harmonics_scipy:outside")
            ctx.eq(f"row {k}: d/dtheta routine == dY/dtheta for a polar angle {side} of the principal range", D[0, k, 0], d_angle(Y[k, 0], t), q.pc, replay=rp, key="derivative_real_spherical_harmonics:outside")
            ctx.eq(f"row {k}: d/dphi routine == dY/dphi for a polar angle {side} of the principal range", D[1, k, 0], d_angle(Y[k, 0], p), q.pc, replay=rp, key="derivative_real_spherical_harmonics:outside")


def job_ground_float(ctx: Ctx):
    """floating-point complements that real-number reasoning cannot see (ground checks on the float code, reported as such):
    high degrees (range of the normalisation factors) and the pole convention of the derivative routine at phi = 0 and phi = pi exactly."""
    ut = _mod()
    ctx.encoded(ut.generate_real_spherical_harmonics, ut.generate_real_spherical_harmonics_scipy, ut.generate_derivative_real_spherical_harmonics)
    import warnings
    warnings.simplefilter("ignore")
    rng = np.random.default_rng(harness.seed() + 3)
    th, ph = rng.uniform(-1, 7, 4), rng.uniform(0.05, 3.09, 4)
    bad = {}
    for lmax in (60, 170, 200):
        a = np.asarray(ut.generate_real_spherical_harmonics(lmax, th, ph), float)
        b = np.asarray(ut.generate_real_spherical_harmonics_scipy(lmax, th, ph), float)
        if not np.all(np.isfinite(a)) or np.max(np.abs(a - b)) > 1e-8:
            bad[f"l_max={lmax}"] = dict(max_abs_difference=float(np.nanmax(np.abs(a - b))), finite=bool(np.all(np.isfinite(a))))
        # addition theorem between direction 0 and 1 for the top degree
        l = lmax
        cg = np.sin(ph[0]) * np.sin(ph[1]) * np.cos(th[0] - th[1]) + np.cos(ph[0]) * np.cos(ph[1])
        lhs = float(np.sum(a[l * l:(l + 1) ** 2, 0] * a[l * l:(l + 1) ** 2, 1]))
        from scipy.special import eval_legendre
        rhs = (2 * l + 1) / (4 * np.pi) * float(eval_legendre(l, cg))
        if abs(lhs - rhs) > 1e-7 * (2 * l + 1):
            bad[f"addition theorem l={l}"] = dict(sum=lhs, expected=rhs)
    # both implementations on polar angles outside [0, pi] (and azimuths outside [0, 2 pi])
    th2, ph2 = np.array([0.3, 1.2, 4.0, -2.0, 7.5, -0.4]), np.array([-0.5, 4.0, 5.5, -2.0, 7.0, 9.0])
    a2 = np.asarray(ut.generate_real_spherical_harmonics(5, th2.copy(), ph2.copy()), float)
    b2 = np.asarray(ut.generate_real_spherical_harmonics_scipy(5, th2, ph2), float)
    th2_copy, ph2_copy = th2.copy(), ph2.copy()
    a3 = np.asarray(ut.generate_real_spherical_harmonics(5, th2, ph2), float)       # the recursion again, after the SciPy-based call saw the same arrays
    if not (np.array_equal(th2, th2_copy) and np.array_equal(ph2, ph2_copy)) or not np.allclose(a3, a2, atol=1e-12):
        bad["SciPy-based call leaves the caller's angle arrays (and hence a later evaluation on them) unchanged"] = dict(theta_after=th2.tolist(), theta_before=th2_copy.tolist())
        th2, ph2 = th2_copy, ph2_copy
    if not np.all(np.isfinite(a2)) or not np.allclose(a2, b2, atol=1e-9):
        rows = np.where(np.max(np.abs(a2 - b2), axis=1) > 1e-9)[0].tolist()
        bad["implementations agree for polar angles outside [0, pi]"] = dict(max_abs_difference=float(np.nanmax(np.abs(a2 - b2))), rows_differing=rows[:12], polar_angles=ph2.tolist())
    D2 = np.asarray(ut.generate_derivative_real_spherical_harmonics(5, th2, ph2), float)
    hh = 1e-6
    f2 = lambda a_, b_: np.asarray(ut.generate_real_spherical_harmonics(5, a_, b_), float)
    dth2, dph2 = (f2(th2 + hh, ph2) - f2(th2 - hh, ph2)) / (2 * hh), (f2(th2, ph2 + hh) - f2(th2, ph2 - hh)) / (2 * hh)
    if not np.allclose(D2[0], dth2, atol=1e-6) or not np.allclose(D2[1], dph2, atol=1e-6):
        bad["derivative routine == finite differences for polar angles outside [0, pi]"] = dict(max_error_theta=float(np.max(np.abs(D2[0] - dth2))), max_error_phi=float(np.max(np.abs(D2[1] - dph2))))
    for pole in (0.0, float(np.pi)):
        D = np.asarray(ut.generate_derivative_real_spherical_harmonics(6, np.array([0.3, 2.0, -1.0]), np.array([pole] * 3)), float)
        if not np.all(np.isfinite(D)) or np.max(np.abs(D[1])) > 1e-12:
            bad[f"dY/dphi at phi={pole}"] = dict(max_abs=float(np.nanmax(np.abs(D[1]))))
    (ctx.ok if not bad else ctx.fail)("float code: recursion == SciPy implementation (also for polar angles outside [0, pi]) and addition theorem up to l_max = 200; polar derivative exactly 0 at phi = 0 and phi = pi", detail=str(bad)[:300],
                                      key="real_spherical_harmonics:float-range-and-poles", how="ground enumeration (not a solver obligation)", replay=(lambda m: (True, bad)), **({} if not bad else dict(model={})))
    ctx.twins_sat += 1


def jobs(tier):
    js = [Job(f"harmonics/lmax={6 if tier == 'quick' else 12}", job_harmonics, 6 if tier == "quick" else 12), Job("solid", job_solid, 6 if tier == "quick" else 10),
          Job(f"derivative+scipy/lmax={3 if tier == 'quick' else 6}", job_derivative, 3 if tier == "quick" else 6), Job("scipy/phi-negative", job_scipy_outside, 3, "negative"), Job("scipy/phi-beyond-pi", job_scipy_outside, 3, "beyond"), Job("ground/float", job_ground_float), Job("cart_to_sph/centre", job_cart_to_sph, True), Job("cart_to_sph/origin", job_cart_to_sph, False), Job("jacobian", job_jacobian)]
    only = os.environ.get("SYMGRID_ONLY")
    return [j for j in js if not only or only in j.name]


def main():
    t0 = time.time()
    res = harness.run_jobs(jobs(harness.tier()))
    return harness.finish(
        PROP, res, t0, "DESIGN.md#c08",
        bounds=dict(l_max="6 (quick) / 12 (thorough)", angles="arbitrary (unit-circle pairs), both poles explicitly", conversion="symbolic point and centre, all branches (generic, z-axis, at the centre)"),
        outside=["SciPy's compiled Y_l^m itself: generate_real_spherical_harmonics_scipy and generate_derivative_real_spherical_harmonics are executed with sph_harm_y / sph_harm_y_all replaced by the documented "
                 "definition (Condon-Shortley phase), l_max <= 3 (quick) / 6; the pole convention of the derivative routine (exact tan(phi) = 0) is forked but its floating-point mask is not modelled", "high degrees (numerical range of the recursion, e.g. overflow beyond l ~ 150)", "IEEE rounding at the poles (tan(pi) != 0 in floating point)"],
        assumptions=["stub contract: scipy.special.sph_harm_y(l, m, polar, azimuth) = sqrt((2l+1)/(4pi) (l-m)!/(l+m)!) P_l^m(cos polar) exp(i m azimuth) with Condon-Shortley phase, for a polar angle in [0, pi] only (a call outside that documented domain is reported as a violation candidate and replayed on the float code)", "angles are points of the unit circle; trigonometric identities reduce by sin^2 -> 1 - cos^2 in the normaliser", "regular solid harmonics l <= 3 re-typed in Cartesian form as the independent definition"])


if __name__ == "__main__":
    sys.exit(main())
