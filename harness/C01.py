"""C01 - 1-D quadrature rules (onedgrid.py): exactness for all polynomials, weights = step * g'(node), nodes ascending in the domain."""
import sys, time, os, math
import numpy as np
from fractions import Fraction
from symgrid import dag, poly, smt, sym, npproxy, harness
from symgrid.sym import Engine, Sym, real, K, node_of, f_and, f_or, f_not, cmp, ExactInt, PI
from symgrid.harness import Job, Ctx
from harness.C03 import unpatched

PROP = "C01"


def _mods():
    import grid.onedgrid as og, grid.basegrid as bg
    return og, bg


def _install():
    og, bg = _mods()
    npproxy.install(og)
    npproxy.install(bg)
    return og, bg


def arr(vals):
    a = np.empty(len(vals), dtype=object)
    a[:] = vals
    return a


# ----------------------------------------------------------------------------- exactness on all polynomials of the nominal degree
def nominal_degree(rule, n):
    return {"ClenshawCurtis": n - 1, "FejerFirst": n - 1, "FejerSecond": n - 1, "Simpson": 3, "Trapezoidal": 1, "MidPoint": 1}[rule]


def replay_exact(rule, n, deg):
    def replay(m):
        og, bg = _mods()
        with unpatched(og, bg):
            g = getattr(og, rule)(n)
            a = [float(m.get(f"a{k}", 0.0)) for k in range(deg + 1)]
            vals = sum(a[k] * g.points ** k for k in range(deg + 1))
            got = float(g.integrate(vals))
            want = sum(a[k] * (2.0 / (k + 1) if k % 2 == 0 else 0.0) for k in range(deg + 1))
            scale = max(1.0, sum(abs(v) for v in a))
            # which single monomial is worst
            errs = {k: float(g.integrate(g.points ** k)) - (2.0 / (k + 1) if k % 2 == 0 else 0.0) for k in range(deg + 1)}
            worst = max(errs, key=lambda k: abs(errs[k]))
            return abs(got - want) > 1e-9 * scale, dict(rule=rule, n=n, polynomial_coefficients=a, quadrature=got, exact=want, worst_monomial=f"x^{worst}", monomial_error=errs[worst])
    return replay


def job_exact(ctx: Ctx, rule, n):
    og, bg = _install()
    e = ctx.engine
    cls = getattr(og, rule)
    ctx.encoded(cls, bg.OneDGrid.__init__)
    deg = nominal_degree(rule, n)
    a = [real(f"a{k}") for k in range(deg + 1)]
    parity = "odd" if n % 2 else "even"
    key = f"{rule}:n-{parity}:exactness"
    ctx.bounds.update(dict(rule=rule, n=n, degree=deg, polynomial="all (symbolic coefficients)"))
    R = replay_exact(rule, n, deg)

    def body():
        g = cls(ExactInt(n))
        return g.points, g.weights, g.domain
    for p in e.run(body):
        ctx.paths += 1
        if p.exc is not None:
            ctx.fail(f"{rule}({n}) constructs", f"{type(p.exc).__name__}: {p.exc}", key=f"{rule}:raises", replay=R, model={})
            continue
        ctx.twin(p.pc)
        x, w, dom = p.result
        (ctx.ok if len(x) == n and len(w) == n else ctx.fail)("n nodes and n weights", detail=f"{len(x)},{len(w)}", key=f"{rule}:count", replay=R)
        quad, exact = K(0), K(0)
        for k in range(deg + 1):
            s = K(0)
            for i in range(n):
                s = s + w[i] * (x[i] ** k if k else 1)
            quad = quad + a[k] * s
            if k % 2 == 0:
                exact = exact + a[k] * Fraction(2, k + 1)
        ctx.eq(f"sum_i w_i p(x_i) == integral of p over [-1,1] for every polynomial p of degree <= {deg}", quad, exact, p.pc, replay=R, key=key)
        _nodes_ok(ctx, x, dom, p.pc, f"{rule}", R)


def _nodes_ok(ctx, x, dom, pc, key, R):
    asc = None
    for i in range(len(x) - 1):
        t = x[i] < x[i + 1]
        asc = t if asc is None else asc & t
    if asc is not None:
        ctx.holds("nodes strictly ascending", asc, pc, replay=R, key=key + ":order")
    inside = None
    for v in x:
        t = v >= dom[0]
        if not (isinstance(dom[1], float) and math.isinf(dom[1])):
            t = t & (v <= dom[1])
        inside = t if inside is None else inside & t
    ctx.holds("nodes inside the declared domain", inside, pc, replay=R, key=key + ":domain")


def replay_nodes(rule, n, kwargs=None):
    def replay(m):
        og, bg = _mods()
        with unpatched(og, bg):
            import warnings
            warnings.simplefilter("ignore")
            kw = {k: float(m.get(k, v)) for k, v in (kwargs or {}).items()}
            g = getattr(og, rule)(n, **kw)
            x = g.points
            bad = len(x) != n or bool(np.any(np.diff(x) <= 0)) or bool(np.any(x < g.domain[0])) or bool(np.any(x > g.domain[1]))
            info = dict(rule=rule, n=n, kwargs=kw, points=x.tolist(), domain=[float(v) for v in g.domain])
            # the closed-form rules' defining formulas, typed here independently of the implementation
            want_x = want_w = None
            if rule == "GaussChebyshevLobatto":
                i = np.arange(n)
                want_x = -np.cos(i * np.pi / (n - 1))
                want_w = np.pi / (n - 1) * np.sin(i * np.pi / (n - 1)) * np.where((i == 0) | (i == n - 1), 0.5, 1.0)
            elif rule == "RectangleRuleSineEndPoints":
                i = np.arange(1, n + 1)
                want_x = 2.0 * i / (n + 1) - 1
                want_w = np.array([4.0 / (n + 1) * sum((1 - np.cos(mm * np.pi)) / (mm * np.pi) * np.sin(mm * np.pi * ii / (n + 1)) for mm in range(1, n + 1)) for ii in i])
            if want_x is not None and len(x) == n:
                info.update(weights=g.weights.tolist(), defined_weights=want_w.tolist())
                if not np.allclose(x, want_x, rtol=1e-12, atol=1e-14) or not np.allclose(g.weights, want_w, rtol=1e-10, atol=1e-13):
                    bad = True
            return bad, info
    return replay


def job_closed_nodes(ctx: Ctx, rule, n):
    """closed-form rules without a polynomial exactness class: node count, order, domain, and the defining weight formula."""
    og, bg = _install()
    e = ctx.engine
    cls = getattr(og, rule)
    ctx.encoded(cls)
    ctx.bounds.update(dict(rule=rule, n=n))
    R = replay_nodes(rule, n)
    for p in e.run(lambda: (lambda g: (g.points, g.weights, g.domain))(cls(ExactInt(n)))):
        ctx.paths += 1
        if p.exc is not None:
            ctx.fail(f"{rule}({n}) constructs", f"{type(p.exc).__name__}: {p.exc}", key=f"{rule}:raises", replay=R, model={})
            continue
        x, w, dom = p.result
        (ctx.ok if len(x) == n and len(w) == n else ctx.fail)("n nodes and n weights", detail=f"{len(x)},{len(w)}", key=f"{rule}:count", replay=R)
        _nodes_ok(ctx, x, dom, p.pc, rule, R)
        if rule == "GaussChebyshevLobatto":
            # definition: x_i = -cos(i pi/(n-1)),  w_i = pi/(n-1) * sin(i pi/(n-1)), halved at both ends
            for i in range(n):
                th = PI * Fraction(i, n - 1)
                ctx.eq(f"node {i} == -cos(i pi/(n-1))", x[i], -th.cos(), p.pc, key=rule + ":definition", replay=R)
                wexp = PI / (n - 1) * th.sin() * (Fraction(1, 2) if i in (0, n - 1) else 1)
                ctx.eq(f"weight {i} == pi/(n-1) sin(i pi/(n-1)) (halved at the ends)", w[i], wexp, p.pc, key=rule + ":definition", replay=R)
        if rule == "RectangleRuleSineEndPoints":
            # definition: x_i = 2 i/(n+1) - 1,  w_i = 4/(n+1) sum_m (1-cos(m pi))/(m pi) sin(m pi i/(n+1))
            for i in range(1, n + 1):
                ctx.eq(f"node {i} == 2i/(n+1) - 1", x[i - 1], K(Fraction(2 * i, n + 1) - 1), p.pc, key=rule + ":definition", replay=R)
                s = K(0)
                for mm in range(1, n + 1):
                    s = s + (1 - (PI * mm).cos()) / (PI * mm) * (PI * Fraction(mm * i, n + 1)).sin()
                ctx.eq(f"weight {i} == sine-series definition", w[i - 1], s * Fraction(4, n + 1), p.pc, key=rule + ":definition", replay=R)


# ----------------------------------------------------------------------------- variable-substitution rules: w_k = h * g'(k h)
PARAM = {"TanhSinh": "delta", "SingleTanh": "h", "ExpSinh": "h", "LogExpSinh": "h", "ExpExp": "h", "SingleExp": "h", "SingleArcSinhExp": "h"}


def replay_param(rule, n):
    def replay(m):
        og, bg = _mods()
        import warnings
        warnings.simplefilter("ignore")
        with unpatched(og, bg):
            pname = PARAM[rule]
            h = float(m.get(pname, 0.3))
            g = getattr(og, rule)(n, **{pname: h})
            mid = (n - 1) // 2
            # independent oracle: central differences of the node map t -> node(t) sampled through the constructor itself at step h*(1 +- eps)
            eps = 1e-6
            gp = getattr(og, rule)(n, **{pname: h * (1 + eps)})
            gm = getattr(og, rule)(n, **{pname: h * (1 - eps)})
            ks = np.arange(-mid, mid + 1)
            with np.errstate(all="ignore"):
                dnode_dt = (gp.points - gm.points) / (2 * eps * h * np.where(ks == 0, 1, ks))       # d node/dt at t = k h, k != 0
            bad = False
            info = dict(rule=rule, n=n, step=h, weights=g.weights.tolist(), h_times_gprime=(h * dnode_dt).tolist())
            for j, k in enumerate(ks):
                if k != 0 and abs(g.weights[j] - h * dnode_dt[j]) > 1e-5 * max(abs(g.weights[j]), abs(h * dnode_dt[j]), 1e-300):
                    bad = True
            if bool(np.any(np.diff(g.points) <= 0)) or bool(np.any(g.points < g.domain[0])) or bool(np.any(g.points > g.domain[1])):
                bad = True
            return bad, info
    return replay


def job_param(ctx: Ctx, rule, n):
    og, bg = _install()
    e = ctx.engine
    cls = getattr(og, rule)
    ctx.encoded(cls)
    pname = PARAM[rule]
    h = real(pname)
    e.assume(h > 0)
    ctx.bounds.update(dict(rule=rule, n=n, step="symbolic > 0"))
    R = replay_param(rule, n)
    key = f"{rule}:weights-step-times-derivative"
    mid = (n - 1) // 2

    def body():
        import warnings
        warnings.simplefilter("ignore")
        g = cls(ExactInt(n), **{pname: h})
        return g.points, g.weights, g.domain
    for p in e.run(body):
        ctx.paths += 1
        if p.exc is not None:
            ctx.fail(f"{rule}({n}, {pname}) constructs", f"{type(p.exc).__name__}: {p.exc}", key=f"{rule}:raises", replay=R, model=ctx.model_for(p.pc) or {})
            continue
        ctx.twin(p.pc)
        x, w, dom = p.result
        (ctx.ok if len(x) == n and len(w) == n else ctx.fail)("n nodes and n weights", detail=f"{len(x)},{len(w)}", key=f"{rule}:count", replay=R)
        # node map g(t) is read off the executed constructor at k = 1 (node = g(1*h)); g'(t) by differentiating that expression
        g1 = node_of(x[mid + 1])
        dg = dag.diff(g1, h.n)
        for j, k in enumerate(range(-mid, mid + 1)):
            gk = dag.subst(g1, {h.n: dag.scale(Fraction(k), h.n)})
            dgk = dag.subst(dg, {h.n: dag.scale(Fraction(k), h.n)})
            ctx.eq(f"node[{k}] == g(k*step)", x[j], Sym(gk), p.pc, replay=R, key=f"{rule}:nodes")
            ctx.eq(f"weight[{k}] == step * g'(k*step)", w[j], h * Sym(dgk), p.pc, replay=R, key=key)
        _nodes_ok(ctx, x, dom, p.pc, rule, R)


# ----------------------------------------------------------------------------- Trefethen maps
def job_trefethen_poly(ctx: Ctx, n):
    og, bg = _install()
    e = ctx.engine
    ctx.encoded(og._g2, og._derg2, og._g3, og._derg3, og.TrefethenCC, og.TrefethenGeneral)
    x = real("x")
    e.assume(x >= -1, x <= 1)
    ctx.bounds.update(dict(n=n, d=[1, 5, 9]))

    def rp(gname, dname):
        def replay(m):
            with unpatched(og, bg):
                xv = float(m.get("x", 0.3))
                h = 1e-5
                g, dg = getattr(og, gname), getattr(og, dname)
                fd = (g(xv + h) - g(xv - h)) / (2 * h)
                return abs(fd - dg(xv)) > 1e-6 * max(1, abs(fd)), dict(x=xv, derivative_routine=float(dg(xv)), finite_difference=float(fd))
        return replay
    for gname, dname in (("_g2", "_derg2"), ("_g3", "_derg3")):
        g, dg = getattr(og, gname), getattr(og, dname)
        ctx.eq(f"{dname}(x) == d {gname}/dx", dg(x), Sym(dag.diff(node_of(g(x)), x.n)), (), replay=rp(gname, dname), key=f"{dname}:derivative")
        ctx.holds(f"{dname}(x) > 0 on [-1,1] (map is increasing, nodes stay ordered)", dg(x) > 0, (), replay=rp(gname, dname), key=f"{dname}:monotone")
        ctx.eq(f"{gname}(1) == 1", g(K(1)), K(1), (), key=f"{gname}:ends")
        ctx.eq(f"{gname}(-1) == -1", g(K(-1)), K(-1), (), key=f"{gname}:ends")

    def wiring_replay(clsname, d):
        def replay(m):
            with unpatched(og, bg):
                base = og.ClenshawCurtis(n)
                t = og.TrefethenCC(n, d) if clsname == "TrefethenCC" else og.TrefethenGeneral(n, og.ClenshawCurtis, d)
                g = {1: (lambda v: v), 5: og._g2, 9: og._g3}[d]
                h = 1e-6
                gp = (g(base.points + h) - g(base.points - h)) / (2 * h)
                bad = (not np.allclose(t.points, g(base.points), rtol=1e-12, atol=1e-14)) or (not np.allclose(t.weights, gp * base.weights, rtol=1e-6, atol=1e-12))
                return bad, dict(cls=clsname, n=n, d=d, points=t.points.tolist(), weights=t.weights.tolist())
        return replay
    for d in (1, 5, 9):
        for clsname in ("TrefethenCC", "TrefethenGeneral"):
            def body():
                base = og.ClenshawCurtis(ExactInt(n))
                t = og.TrefethenCC(ExactInt(n), d) if clsname == "TrefethenCC" else og.TrefethenGeneral(ExactInt(n), og.ClenshawCurtis, d)
                return base.points, base.weights, t.points, t.weights, t.domain
            R = wiring_replay(clsname, d)
            for p in e.run(body):
                ctx.paths += 1
                if p.exc is not None:
                    ctx.fail(f"{clsname}({n}, d={d}) constructs", f"{type(p.exc).__name__}: {p.exc}", key=f"{clsname}:raises", replay=R, model={})
                    continue
                bx, bw, tx, tw, dom = p.result
                gfun = {1: (lambda v: v), 5: og._g2, 9: og._g3}[d]
                for i in range(n):
                    xi = real(f"xi")
                    gx = node_of(gfun(xi))
                    want_x = dag.subst(gx, {xi.n: node_of(bx[i])})
                    want_w = dag.mul(dag.subst(dag.diff(gx, xi.n), {xi.n: node_of(bx[i])}), node_of(bw[i]))
                    ctx.eq(f"{clsname}(d={d}) node {i} == g(x_i)", tx[i], Sym(want_x), p.pc, replay=R, key=f"{clsname}:wiring")
                    ctx.eq(f"{clsname}(d={d}) weight {i} == g'(x_i) * w_i", tw[i], Sym(want_w), p.pc, replay=R, key=f"{clsname}:wiring")
                _nodes_ok(ctx, tx, dom, p.pc, clsname, R)


def job_trefethen_strip(ctx: Ctx):
    og, bg = _install()
    e = ctx.engine
    ctx.encoded(og._gstrip, og._dergstrip)
    rho, s = real("rho"), real("s")
    e.assume(rho > 1)
    ctx.bounds.update(dict(rho="symbolic > 1", s="symbolic in (-1+1e-7, 1-1e-7), and the end points +-1"))

    def replay_int(m):
        with unpatched(og, bg):
            r, sv = float(m.get("rho", 1.5)), float(m.get("s", 0.2))
            h = 1e-6
            fd = (og._gstrip(r, np.array([sv + h]))[0] - og._gstrip(r, np.array([sv - h]))[0]) / (2 * h)
            got = og._dergstrip(r, np.array([sv]))[0]
            return abs(fd - got) > 1e-5 * max(abs(fd), 1e-12), dict(rho=r, s=sv, dergstrip=float(got), finite_difference=float(fd))

    def replay_end(m):
        with unpatched(og, bg):
            import mpmath
            r = float(m.get("rho", 3.0))
            got = float(og._dergstrip(r, np.array([1.0]))[0])
            # independent: by L'Hopital the limit of g_u/cos(u) at u = pi/2 is -g_uu(pi/2); g(u) re-typed from the docstring, 40 digits
            mpmath.mp.dps = 40
            tau = mpmath.pi / mpmath.log(r)
            termd = mpmath.mpf(1) / 2 + 1 / (mpmath.exp(tau * mpmath.pi) + 1)
            cn = 1 / (mpmath.log(1 + mpmath.exp(-tau * mpmath.pi)) - mpmath.log(2) + mpmath.pi * tau * termd / 2)
            gofu = lambda uu: cn * (mpmath.log(1 + mpmath.exp(-tau * (mpmath.pi / 2 + uu))) - mpmath.log(1 + mpmath.exp(-tau * (mpmath.pi / 2 - uu))) + termd * tau * uu)
            lim = -mpmath.diff(gofu, mpmath.pi / 2, 2)
            mpmath.mp.dps = 15
            return abs(got - float(lim)) > 1e-9 * max(abs(got), 1e-12), dict(rho=r, dergstrip_at_1=got, limit_of_gstrip_derivative_at_1=float(lim))
    # interior
    saved = list(e.assumptions)
    e.assume(s > K(-1) + Fraction(1, 10 ** 7), s < K(1) - Fraction(1, 10 ** 7))
    for p in e.run(lambda: (og._gstrip(rho, arr([s]))[0], og._dergstrip(rho, arr([s]))[0])):
        ctx.paths += 1
        if p.exc is not None:
            ctx.fail("_dergstrip interior: no exception", f"{type(p.exc).__name__}: {p.exc}", key="_dergstrip:raises", replay=replay_int, model=ctx.model_for(p.pc) or {})
            continue
        ctx.twin(p.pc)
        g, dg = p.result
        ctx.eq("_dergstrip(rho, s) == d _gstrip/ds on the interior", dg, Sym(dag.diff(node_of(g), s.n)), p.pc, replay=replay_int, key="_dergstrip:derivative")
    # end points: g'(+-1) = - d^2 g/du^2 at u = +-pi/2 (L'Hopital on g_u / cos u), with u = arcsin(s) kept as a free variable
    e.assumptions = list(saved)
    u = real("u")
    prox = og.np

    class ArcsinStub:
        def __call__(self, v):
            return arr([u for _ in v]) if isinstance(v, np.ndarray) else u
    real_arcsin = prox.arcsin
    prox._extra["arcsin"] = None
    type(prox).arcsin = lambda self, v: (arr([u for _ in v]) if isinstance(v, np.ndarray) else u)
    gu = e.run(lambda: og._gstrip(rho, arr([s]))[0])[0].result
    type(prox).arcsin = real_arcsin
    guu = dag.diff(dag.diff(node_of(gu), u.n), u.n)
    for sgn in (1, -1):
        want = dag.neg(dag.subst(guu, {u.n: node_of(PI * Fraction(sgn, 2))})) if sgn == 1 else dag.subst(guu, {u.n: node_of(PI * Fraction(sgn, 2))})
        for p in e.run(lambda: og._dergstrip(rho, arr([K(sgn)]))[0]):
            ctx.paths += 1
            if p.exc is not None:
                ctx.fail("_dergstrip end point: no exception", f"{type(p.exc).__name__}: {p.exc}", key="_dergstrip:raises", replay=replay_end, model=ctx.model_for(p.pc) or {})
                continue
            ctx.eq(f"_dergstrip(rho, {sgn}) == limit of d _gstrip/ds at the end point", p.result, Sym(want), p.pc, replay=replay_end, key="_dergstrip:end-point-limit")
    # wiring of the three classes on a 3-node Clenshaw-Curtis grid
    for clsname in ("TrefethenStripCC", "TrefethenStripGeneral"):
        def body():
            base = og.ClenshawCurtis(ExactInt(3))
            t = og.TrefethenStripCC(ExactInt(3), rho) if clsname == "TrefethenStripCC" else og.TrefethenStripGeneral(ExactInt(3), og.ClenshawCurtis, rho)
            return og._gstrip(rho, base.points), og._dergstrip(rho, base.points) * base.weights, t.points, t.weights
        for p in e.run(body):
            ctx.paths += 1
            if p.exc is not None:
                ctx.fail(f"{clsname}(3, rho) constructs", f"{type(p.exc).__name__}: {p.exc}", key=f"{clsname}:raises", model=ctx.model_for(p.pc) or {})
                continue
            gx, gw, tx, tw = p.result
            for i in range(3):
                ctx.eq(f"{clsname} node {i} == _gstrip(x_i)", tx[i], gx[i], p.pc, key=f"{clsname}:wiring")
                ctx.eq(f"{clsname} weight {i} == _dergstrip(x_i) w_i", tw[i], gw[i], p.pc, key=f"{clsname}:wiring")


# ----------------------------------------------------------------------------- weight-divided Gauss rules: wiring around the (stubbed) node providers
def job_gauss_wiring(ctx: Ctx, n):
    og, bg = _install()
    e = ctx.engine
    ctx.encoded(og.GaussLaguerre, og.GaussChebyshev, og.GaussChebyshevType2, og.GaussLegendre)
    alpha = real("alpha")
    e.assume(alpha > -1)
    xs = [real(f"x{i}") for i in range(n)]
    vs = [real(f"v{i}") for i in range(n)]
    for x in xs:
        e.assume(x > 0)
    ctx.bounds.update(dict(n=n, alpha="symbolic > -1", providers="stubbed: symbolic nodes/weights of the Gauss rule for the provider's weight function"))
    orig = (og.roots_genlaguerre, og.roots_chebyu)
    stubs = (lambda npts, a: (arr(list(xs)), arr(list(vs))), lambda npts: (arr(list(xs)), arr(list(vs))))
    og.roots_genlaguerre, og.roots_chebyu = stubs

    class real_providers:
        def __enter__(self):
            og.roots_genlaguerre, og.roots_chebyu = orig

        def __exit__(self, *a):
            og.roots_genlaguerre, og.roots_chebyu = stubs

    class Poly:
        class legendre:
            leggauss = staticmethod(lambda npts: (arr(list(xs)), arr(list(vs))))

        class chebyshev:
            # numpy returns descending symmetric nodes and the constant weight pi/n
            chebgauss = staticmethod(lambda npts: (arr([xs[i] if i < (npts + 1) // 2 else -xs[npts - 1 - i] for i in range(npts)]), arr([PI / npts] * npts)))
    og.np._extra["polynomial"] = Poly

    def replay_lag(m):
        import scipy.special as sp, mpmath
        with unpatched(og, bg), real_providers():
            al = float(m.get("alpha", -0.5))
            g = og.GaussLaguerre(n, al)
            # independent: rule must integrate x^alpha e^-x * 1 and * x exactly: sum w_i f(x_i) with f = x^alpha e^-x p(x)
            bad = False
            info = dict(alpha=al, n=n)
            for k in (0, 1):
                got = float(np.sum(g.weights * g.points ** al * np.exp(-g.points) * g.points ** k))
                want = float(mpmath.gamma(al + k + 1))
                info[f"moment{k}"] = dict(quadrature=got, exact=want)
                if abs(got - want) > 1e-8 * max(1, abs(want)):
                    bad = True
            return bad, info
    saved = list(e.assumptions)
    for p in e.run(lambda: (lambda g: (g.points, g.weights))(og.GaussLaguerre(ExactInt(n), alpha))):
        ctx.paths += 1
        if p.exc is not None:
            ctx.fail("GaussLaguerre(n, alpha) constructs for every alpha > -1", f"{type(p.exc).__name__}: {p.exc}", key="GaussLaguerre:raises", replay=replay_lag, model=ctx.model_for(p.pc) or {})
            continue
        ctx.twin(p.pc)
        x, w = p.result
        for i in range(n):
            ctx.eq(f"GaussLaguerre node {i} is the provider's node", x[i], xs[i], p.pc, replay=replay_lag, key="GaussLaguerre:weight-division")
            ctx.eq(f"GaussLaguerre weight {i} == v_i * exp(x_i) * x_i**(-alpha)", w[i], vs[i] * xs[i].exp() * xs[i] ** (-alpha), p.pc, replay=replay_lag, key="GaussLaguerre:weight-division")
    e.assumptions = [f for f in saved]
    for x in xs:
        e.assume(x < 1)

    def chk(name, build, wexp, xexp):
        def replay(m):
            with unpatched(og, bg), real_providers():
                g = getattr(og, name)(n)
                # moments of 1 and x^2 against the plain weight on [-1,1]
                got0, got2 = float(np.sum(g.weights)), float(np.sum(g.weights * g.points ** 2))
                return abs(got0 - 2) > 0.5 or bool(np.any(np.diff(g.points) <= 0)), dict(rule=name, n=n, sum_w=got0, second_moment=got2)
        for p in e.run(build):
            ctx.paths += 1
            if p.exc is not None:
                ctx.fail(f"{name}(n) constructs", f"{type(p.exc).__name__}: {p.exc}", key=f"{name}:raises", replay=replay, model=ctx.model_for(p.pc) or {})
                continue
            x, w = p.result
            for i in range(n):
                ctx.eq(f"{name} node {i}", x[i], xexp(i), p.pc, replay=replay, key=f"{name}:weight-division")
                ctx.eq(f"{name} weight {i}", w[i], wexp(i), p.pc, replay=replay, key=f"{name}:weight-division")
    cheb_x = lambda i: (xs[i] if i < (n + 1) // 2 else -xs[n - 1 - i])
    chk("GaussChebyshev", lambda: (lambda g: (g.points, g.weights))(og.GaussChebyshev(ExactInt(n))),
        lambda i: PI / n * (1 - cheb_x(n - 1 - i) ** 2).sqrt(), lambda i: cheb_x(n - 1 - i))
    chk("GaussChebyshevType2", lambda: (lambda g: (g.points, g.weights))(og.GaussChebyshevType2(ExactInt(n))), lambda i: vs[i] / (1 - xs[i] ** 2).sqrt(), lambda i: xs[i])
    chk("GaussLegendre", lambda: (lambda g: (g.points, g.weights))(og.GaussLegendre(ExactInt(n))), lambda i: vs[i], lambda i: xs[i])


def job_ground_gauss(ctx: Ctx, tier):
    """float code with the real LAPACK/SciPy node providers (the solver jobs stub them): Gauss-Legendre, both Chebyshev kinds and generalised Laguerre
    (alpha in {-0.5, 0, 0.7, 2}) integrate weight function x monomial for every degree <= 2n-1, n = 2..12, 20, 35 (Laguerre <= 20).  Ground enumeration."""
    og, bg = _mods()
    import warnings, math
    from scipy.special import gammaln
    warnings.simplefilter("ignore")
    ctx.encoded(og.GaussLegendre, og.GaussChebyshev, og.GaussChebyshevType2, og.GaussLaguerre)
    bad = {}
    ns = list(range(2, 13)) + [20, 35] + ([50, 80] if tier == "thorough" else [])
    with unpatched(og, bg):
        for n in ns:
            g = og.GaussLegendre(n)
            for k in range(0, 2 * n):
                ex = 0.0 if k % 2 else 2.0 / (k + 1)
                got = float(np.sum(g.weights * g.points ** k))
                if abs(got - ex) > 2e-12:
                    bad[f"GaussLegendre({n}) x^{k}"] = dict(got=got, exact=ex)
                    break
            # weight-divided rules: integrate(w(x) x^k) must equal the weighted moment
            for cls, wfun, mom in ((og.GaussChebyshev, lambda x: 1 / np.sqrt(1 - x * x), lambda k: 0.0 if k % 2 else math.pi * math.comb(k, k // 2) / 2 ** k),
                                   (og.GaussChebyshevType2, lambda x: np.sqrt(1 - x * x), lambda k: 0.0 if k % 2 else math.pi / 2 ** (k + 1) * math.comb(k, k // 2) / (k // 2 + 1))):
                g = cls(n)
                for k in range(0, 2 * n):
                    got = float(np.sum(g.weights * wfun(g.points) * g.points ** k))
                    if abs(got - mom(k)) > 5e-12:
                        bad[f"{cls.__name__}({n}) w(x) x^{k}"] = dict(got=got, exact=mom(k))
                        break
                if bool(np.any(np.diff(g.points) <= 0)) or g.points[0] < -1 or g.points[-1] > 1 or len(g.points) != n:
                    bad[f"{cls.__name__}({n}) nodes"] = "not n ascending nodes inside [-1, 1]"
            if n <= 20:
                for alpha in (-0.5, 0.0, 0.7, 2.0):
                    g = og.GaussLaguerre(n, alpha)
                    for k in range(0, 2 * n):
                        ex = math.exp(gammaln(alpha + k + 1))
                        with np.errstate(all="ignore"):
                            got = float(np.sum(g.weights * g.points ** alpha * np.exp(-g.points) * g.points ** k))
                        if not abs(got - ex) <= 1e-9 * ex:
                            bad[f"GaussLaguerre({n}, alpha={alpha}) x^alpha e^-x x^{k}"] = dict(got=got, exact=ex)
                            break
                    if bool(np.any(np.diff(g.points) <= 0)) or g.points[0] < 0 or len(g.points) != n:
                        bad[f"GaussLaguerre({n}, alpha={alpha}) nodes"] = "not n ascending nodes inside [0, inf)"
    (ctx.ok if not bad else ctx.fail)(f"float code, real node providers: Gauss-Legendre / Chebyshev 1, 2 / generalised Laguerre exact for every degree <= 2n-1 (n in {ns})", detail=str(bad)[:400],
                                      key="gauss:float-exactness", how="ground enumeration (not a solver obligation)", replay=(lambda m: (True, dict(list(bad.items())[:5]))), **({} if not bad else dict(model={})))
    ctx.twins_sat += 1


def jobs(tier):
    js = [Job("ground/gauss-float", job_ground_gauss, tier)]
    ns = range(2, 10) if tier == "quick" else range(2, 21)
    for rule in ("ClenshawCurtis", "FejerFirst", "FejerSecond", "Trapezoidal", "MidPoint"):
        for n in ns:
            js.append(Job(f"exact/{rule}/{n}", job_exact, rule, n))
    for n in (3, 5, 7, 9) if tier == "quick" else (3, 5, 7, 9, 11, 15, 21):
        js.append(Job(f"exact/Simpson/{n}", job_exact, "Simpson", n))
    for rule in ("GaussChebyshevLobatto", "RectangleRuleSineEndPoints"):
        for n in ((2, 3, 4, 5, 8) if tier == "quick" else (2, 3, 4, 5, 6, 7, 8, 11, 12)):
            js.append(Job(f"nodes/{rule}/{n}", job_closed_nodes, rule, n))
    for rule in PARAM:
        for n in ((3, 5) if tier == "quick" else (3, 5, 7)):
            js.append(Job(f"param/{rule}/{n}", job_param, rule, n))
    for n in ((3, 4) if tier == "quick" else (3, 4, 5, 6)):
        js.append(Job(f"trefethen/poly/{n}", job_trefethen_poly, n))
    js.append(Job("trefethen/strip", job_trefethen_strip))
    for n in ((2, 3) if tier == "quick" else (2, 3, 4)):
        js.append(Job(f"gauss-wiring/{n}", job_gauss_wiring, n))
    only = os.environ.get("SYMGRID_ONLY")
    return [j for j in js if not only or only in j.name]


def main():
    t0 = time.time()
    res = harness.run_jobs(jobs(harness.tier()))
    return harness.finish(
        PROP, res, t0, "DESIGN.md#c01",
        bounds=dict(exactness="ClenshawCurtis, FejerFirst, FejerSecond, Trapezoidal, MidPoint n=2..9 (quick) / 2..20 (thorough), Simpson odd n; ALL polynomials of the nominal degree (symbolic coefficients)",
                    parametric="7 variable-substitution rules, n in {3,5} / {3,5,7}, symbolic step", trefethen="polynomial maps d in {1,5,9}; strip map symbolic rho > 1 incl. the end-point limit",
                    gauss="weight division around stubbed node providers, n = 2..3/4, symbolic alpha > -1"),
        outside=["Gauss-Legendre / Gauss-Laguerre / Gauss-Chebyshev node and weight VALUES (LAPACK / SciPy eigenvalue code): only the wiring around them is checked, under the stub contract",
                 "n beyond the bound", "IEEE rounding; cos(pi q) is the exact algebraic number"],
        assumptions=["cos(pi k/M) encoded exactly through the Chebyshev three-term chain with T_M(c) = -1 and a 1e-15 enclosure of c", "exp/log/sinh/cosh/tanh/arcsinh/arcsin axioms of symgrid/smt.py",
                     "stub contract: roots_genlaguerre / roots_chebyu / leggauss / chebgauss return the Gauss rule for their own weight function (chebgauss: descending symmetric nodes, constant weight pi/n)"])


if __name__ == "__main__":
    sys.exit(main())
