"""C13 - rectilinear grids: index maps, lexicographic layout, tensor weights, weight schemes, from_molecule, closest_point (cubic.py)."""
import sys, time, os, itertools, math
import numpy as np
from fractions import Fraction
from symgrid import dag, poly, smt, sym, npproxy, harness
from symgrid.sym import Engine, Sym, real, integer, K, node_of, f_and, f_or, f_not, cmp, ExactInt
from symgrid.harness import Job, Ctx
from harness.C03 import unpatched

PROP = "C13"


def _mods():
    import grid.cubic as cu, grid.basegrid as bg
    return cu, bg


def arr(vals, shape=None):
    a = np.empty(len(vals), dtype=object)
    a[:] = vals
    return a if shape is None else a.reshape(shape)


# ----------------------------------------------------------------------------- (a) index maps, symbolic (unbounded) shapes
def replay_index(dim, fixed_shape=None):
    def replay(m):
        cu, bg = _mods()
        with unpatched(cu, bg):
            shape = fixed_shape or tuple(max(2, int(m.get(f"n{a}", 2))) for a in range(dim))
            g = object.__new__(cu._HyperRectangleGrid)
            g._shape = shape
            info = dict(shape=shape)
            if "idx" in m:
                idx = int(m["idx"])
                c = g.index_to_coordinates(idx)
                back = int(g.coordinates_to_index(c))
                info.update(index=idx, coords=[int(v) for v in c], back=back)
                bad = back != idx or any(not (0 <= int(v) < n) for v, n in zip(c, shape))
                return bad, info
            c = tuple(int(m.get(f"c{a}", 0)) for a in range(dim))
            idx = int(g.coordinates_to_index(c))
            back = tuple(int(v) for v in g.index_to_coordinates(idx))
            info.update(coords=c, index=idx, back=back)
            return back != c or not (0 <= idx < math.prod(shape)), info
    return replay


def job_index(ctx: Ctx, dim):
    cu, bg = _mods()
    npproxy.install(cu, int_as_object=True)
    e = ctx.engine
    ctx.encoded(cu._HyperRectangleGrid.coordinates_to_index, cu._HyperRectangleGrid.index_to_coordinates)
    ns = [integer(f"n{a}") for a in range(dim)]
    idx = integer("idx")
    cs = [integer(f"c{a}") for a in range(dim)]
    for n in ns:
        e.assume(n >= 2)
        e.positive.add(n.n.id)
    if dim == 3:
        e.positive.add((ns[1] * ns[2]).n.id)
    ctx.bounds.update(dict(dim=dim, shape="symbolic integers >= 2 (unbounded)", index="symbolic integer in [0, prod(shape))"))
    g = object.__new__(cu._HyperRectangleGrid)
    g._shape = tuple(ns)
    total = ns[0] * ns[1] * (ns[2] if dim == 3 else 1)
    key = f"index-maps:{dim}d"
    base = list(e.assumptions)
    e.assume(idx >= 0, idx < total)

    def f1():
        c = g.index_to_coordinates(idx)
        return c, g.coordinates_to_index(c)
    for p in e.run(f1):
        ctx.paths += 1
        if p.exc is not None:
            ctx.fail("index_to_coordinates:no-exception", f"{type(p.exc).__name__}: {p.exc}", key=key + ":raises", replay=replay_index(dim), model=ctx.model_for(p.pc) or {})
            continue
        ctx.twin(p.pc)
        c, back = p.result
        ctx.eq("coordinates_to_index(index_to_coordinates(i)) == i", back, idx, p.pc, replay=replay_index(dim), key=key)
        rng = None
        for v, n in zip(c, ns):
            t = (v >= 0) & (v < n)
            rng = t if rng is None else rng & t
        ctx.holds("index_to_coordinates(i) lies inside the shape", rng, p.pc, replay=replay_index(dim), key=key)
    # the converse direction needs products of bounds (non-linear integer arithmetic that z3 does not close for symbolic shapes):
    # it is decided for every concrete shape up to the bound, coordinates still symbolic
    mx = 4 if harness.tier() == "quick" else 7
    ctx.bounds["converse_direction"] = f"every concrete shape with 2 <= n_i <= {mx}, symbolic coordinates"
    for shape in itertools.product(range(2, mx + 1), repeat=dim):
        _index_converse(ctx, cu, dim, shape, cs, key)


def _index_converse(ctx, cu, dim, shape, cs, key):
    e = Engine()
    ctx.engine = e
    ns = [K(n) for n in shape]
    g = object.__new__(cu._HyperRectangleGrid)
    g._shape = tuple(ExactInt(n) for n in shape)
    total = math.prod(shape)
    for cc, n in zip(cs, shape):
        e.assume(cc >= 0, cc < n)

    def f2():
        i = g.coordinates_to_index(tuple(cs))
        return i, g.index_to_coordinates(i)
    for p in e.run(f2):
        ctx.paths += 1
        if p.exc is not None:
            ctx.fail("coordinates_to_index:no-exception", f"{type(p.exc).__name__}: {p.exc}", key=key + ":raises", replay=replay_index(dim, shape), model=ctx.model_for(p.pc) or {})
            continue
        i, back = p.result
        ctx.holds("coordinates_to_index(c) in [0, size)", (i >= 0) & (i < total), p.pc, replay=replay_index(dim, shape), key=key)
        stride_form = cs[0] * ns[1] * (ns[2] if dim == 3 else 1) + cs[1] * (ns[2] if dim == 3 else 1) + (cs[2] if dim == 3 else 0)
        replay_index_ = replay_index(dim)
        ctx.eq("flat index == row-major stride formula (last index fastest)", i, stride_form, p.pc, replay=replay_index(dim, shape), key=key)
        for a in range(dim):
            ctx.eq(f"index_to_coordinates(coordinates_to_index(c))[{a}] == c[{a}]", back[a], cs[a], p.pc, replay=replay_index(dim, shape), key=key)


# ----------------------------------------------------------------------------- (b) layout of UniformGrid / Tensor1DGrids
def replay_uniform(shape, weight):
    def replay(m):
        cu, bg = _mods()
        with unpatched(cu, bg):
            dim = len(shape)
            origin = np.array([float(m.get(f"o{a}", 0.0)) for a in range(dim)])
            axes = np.array([[float(m.get(f"a{i}{j}", 1.0 if i == j else 0.0)) for j in range(dim)] for i in range(dim)])
            info = dict(shape=shape, origin=origin.tolist(), axes=axes.tolist(), weight=weight)
            try:
                g = cu.UniformGrid(origin, axes, np.array(shape), weight=weight)
            except Exception as ex:
                info["raised"] = f"{type(ex).__name__}: {ex}"
                return abs(np.linalg.det(axes)) > 1e-8, info
            bad = False
            for n, c in enumerate(itertools.product(*[range(s) for s in shape])):
                want = origin + sum(ci * axes[a] for a, ci in enumerate(c))
                if np.max(np.abs(g.points[n] - want)) > 1e-9 * (1 + np.max(np.abs(want))):
                    bad = True
                    info["first_bad"] = dict(flat=n, coords=c, got=g.points[n].tolist(), want=want.tolist())
                    break
            vol = abs(np.linalg.det(axes * np.array(shape)[:, None]))
            info.update(sum_w=float(g.weights.sum()), volume=float(vol))
            if abs(g.weights.sum() - vol) > vol * sum(1.0 / s for s in shape) * (1 + 1e-9):
                bad = True
            if not bad:
                # the stated tolerance V*sum(1/n_i) is too wide to separate anything on a 2x3x4 grid: the same axes on a fine grid
                big = (20, 25, 30)[:dim] if dim == 3 else (40, 50)
                try:
                    g2 = cu.UniformGrid(origin, axes, np.array(big), weight=weight)
                    vol2 = abs(np.linalg.det(axes * np.array(big)[:, None]))
                    info.update(fine_shape=list(big), fine_sum_w=float(g2.weights.sum()), fine_volume=float(vol2), fine_bound=float(vol2 * sum(1.0 / s_ for s_ in big)))
                    if abs(g2.weights.sum() - vol2) > vol2 * sum(1.0 / s_ for s_ in big) * (1 + 1e-9):
                        bad = True
                except Exception as ex:
                    info["fine_raised"] = f"{type(ex).__name__}: {ex}"
            return bad, info
    return replay


def job_uniform(ctx: Ctx, shape):
    cu, bg = _mods()
    npproxy.install(cu)
    npproxy.install(bg)
    e = ctx.engine
    dim = len(shape)
    ctx.encoded(cu.UniformGrid.__init__, cu.UniformGrid._choose_weight_scheme, cu.UniformGrid._calculate_volume, cu._HyperRectangleGrid.__init__,
                cu._HyperRectangleGrid.get_points_along_axes, cu._HyperRectangleGrid.coordinates_to_index)
    origin = arr([real(f"o{a}") for a in range(dim)])
    axes = arr([real(f"a{i}{j}") for i in range(dim) for j in range(dim)], (dim, dim))
    ctx.bounds.update(dict(shape=shape, origin="symbolic", axes="symbolic (skewed allowed), |det| >= 1e-10"))
    key = f"UniformGrid:{dim}d"

    def body():
        g = cu.UniformGrid(origin, axes, np.array(shape), weight="Trapezoid")
        return g.points, g.weights, [g.coordinates_to_index(c) for c in itertools.product(*[range(s) for s in shape])], g.shape
    R = replay_uniform(shape, "Trapezoid")
    for p in e.run(body):
        ctx.paths += 1
        if p.exc is not None:
            if isinstance(p.exc, ValueError) and "linearly independent" in str(p.exc):
                ctx.ok("singular axes are rejected", detail=str(p.exc)[:60])
            else:
                ctx.fail("UniformGrid():no-exception", f"{type(p.exc).__name__}: {p.exc}", key=key + ":raises", replay=R, model=ctx.model_for(p.pc) or {})
            continue
        ctx.twin(p.pc)
        pts, w, flat, shp = p.result
        for n, c in enumerate(itertools.product(*[range(s) for s in shape])):
            (ctx.ok if int(flat[n]) == n else ctx.fail)(f"coordinates_to_index{c} == {n} (last index fastest)", detail=str(flat[n]), key=key + ":layout", replay=R)
            for a in range(dim):
                want = origin[a]
                for b in range(dim):
                    want = want + c[b] * axes[b, a]
                ctx.eq(f"points[{n}][{a}] == (origin + sum_i c_i a_i)[{a}] for c={c}", pts[n, a], want, p.pc, replay=R, key=key + ":layout")
        # Trapezoid weights: volume / prod(n+1)
        det = npproxy.NPProxy().linalg.det(lift_axes(axes, shape))
        for n in (0, len(w) - 1):
            f = f_or(f_and(cmp("ge", det.n, dag.ZERO), cmp("eq", node_of(w[n]), (det / math.prod(s + 1 for s in shape)).n)),
                     f_and(cmp("le", det.n, dag.ZERO), cmp("eq", node_of(w[n]), (-det / math.prod(s + 1 for s in shape)).n)))
            ctx.holds(f"Trapezoid weights[{n}] == |det(shape*axes)| / prod(n_i + 1)", f, p.pc, replay=R, key=key + ":weights")


def lift_axes(axes, shape):
    out = np.empty(axes.shape, dtype=object)
    for i in range(axes.shape[0]):
        for j in range(axes.shape[1]):
            out[i, j] = axes[i, j] * shape[i]
    return out


def replay_tensor(sizes):
    def replay(m):
        cu, bg = _mods()
        with unpatched(cu, bg):
            grids = []
            for t, s in enumerate(sizes):
                grids.append(bg.OneDGrid(np.array([float(m.get(f"x{t}_{i}", i + 0.1 * t)) for i in range(s)]), np.array([float(m.get(f"w{t}_{i}", 1.0)) for i in range(s)])))
            g = cu.Tensor1DGrids(*grids)
            bad = False
            for n, c in enumerate(itertools.product(*[range(s) for s in sizes])):
                want_p = [grids[t].points[ci] for t, ci in enumerate(c)]
                want_w = math.prod(grids[t].weights[ci] for t, ci in enumerate(c))
                if np.max(np.abs(g.points[n] - want_p)) > 1e-12 or abs(g.weights[n] - want_w) > 1e-12 * (1 + abs(want_w)):
                    bad = True
            return bad, dict(sizes=sizes, points=g.points.tolist()[:6], weights=g.weights.tolist()[:6])
    return replay


def job_tensor(ctx: Ctx, sizes):
    cu, bg = _mods()
    npproxy.install(cu)
    npproxy.install(bg)
    e = ctx.engine
    ctx.encoded(cu.Tensor1DGrids.__init__, cu._HyperRectangleGrid.__init__, bg.Grid.integrate, cu._HyperRectangleGrid.get_points_along_axes)
    grids = []
    for t, s in enumerate(sizes):
        grids.append(bg.OneDGrid(arr([real(f"x{t}_{i}") for i in range(s)]), arr([real(f"w{t}_{i}") for i in range(s)])))
    ctx.bounds.update(dict(sizes=sizes, nodes="symbolic 1-D nodes and weights"))
    key = f"Tensor1DGrids:{len(sizes)}d"
    R = replay_tensor(sizes)

    def body():
        g = cu.Tensor1DGrids(*grids)
        vals = np.empty(g.size, dtype=object)
        for n in range(g.size):
            v = K(1)
            for t in range(len(sizes)):
                v = v * Sym(dag.uf(f"g{t}", [node_of(g.points[n, t])]))
            vals[n] = v
        return g.points, g.weights, g.integrate(vals), g.get_points_along_axes(), g.shape
    for p in e.run(body):
        ctx.paths += 1
        if p.exc is not None:
            ctx.fail("Tensor1DGrids():no-exception", f"{type(p.exc).__name__}: {p.exc}", key=key + ":raises", replay=R)
            continue
        pts, w, integ, along, shp = p.result
        (ctx.ok if tuple(int(s) for s in shp) == tuple(sizes) else ctx.fail)("shape == sizes of the 1-D grids", detail=str(shp), key=key + ":layout", replay=R)
        for n, c in enumerate(itertools.product(*[range(s) for s in sizes])):
            wexp = K(1)
            for t, ci in enumerate(c):
                ctx.eq(f"points[{n}][{t}] == x{t}[{ci}]", pts[n, t], grids[t].points[ci], p.pc, replay=R, key=key + ":layout")
                wexp = wexp * grids[t].weights[ci]
            ctx.eq(f"weights[{n}] == product of 1-D weights {c}", w[n], wexp, p.pc, replay=R, key=key + ":weights")
        prod = K(1)
        for t, g1 in enumerate(grids):
            s1 = K(0)
            for i in range(g1.size):
                s1 = s1 + g1.weights[i] * Sym(dag.uf(f"g{t}", [node_of(g1.points[i])]))
            prod = prod * s1
        ctx.eq("separable integrand integrates to the product of the 1-D integrals", integ, prod, p.pc, replay=R, key=key + ":weights")
        for t in range(len(sizes)):
            for i in range(sizes[t]):
                ctx.eq(f"get_points_along_axes()[{t}][{i}] == x{t}[{i}]", along[t][i], grids[t].points[i], p.pc, replay=R, key=key + ":layout")


# ----------------------------------------------------------------------------- (c) weight schemes
def job_weights(ctx: Ctx, scheme, shape):
    cu, bg = _mods()
    npproxy.install(cu)
    npproxy.install(bg)
    e = ctx.engine
    dim = len(shape)
    ctx.encoded(cu.UniformGrid._choose_weight_scheme, cu.UniformGrid._calculate_volume, cu.UniformGrid._calculate_alternative_volume)
    # orthogonal axes with symbolic positive steps: volume = prod(n_i h_i); weights are V times closed constants
    hs = [real(f"h{a}") for a in range(dim)]
    for h in hs:
        e.assume(h > 0)
    axes = np.empty((dim, dim), dtype=object)
    for i in range(dim):
        for j in range(dim):
            axes[i, j] = hs[i] if i == j else K(0)
    origin = arr([K(0)] * dim)
    ctx.bounds.update(dict(scheme=scheme, shape=shape, axes="diagonal, symbolic positive steps"))
    key = f"weights:{scheme}:{dim}d"

    def replay(m):
        with unpatched(cu, bg):
            ax = np.diag([float(m.get(f"h{a}", 1.0)) for a in range(dim)])
            info = dict(scheme=scheme, shape=shape, axes=np.diag(ax).tolist())
            try:
                g = cu.UniformGrid(np.zeros(dim), ax, np.array(shape), weight=scheme)
            except Exception as ex:
                info["raised"] = f"{type(ex).__name__}: {ex}"
                return True, info
            vol = abs(np.linalg.det(ax * np.array(shape)[:, None]))
            info.update(sum_w=float(g.weights.sum()), volume=float(vol), bound=float(vol * sum(1.0 / s for s in shape)))
            return abs(g.weights.sum() - vol) > vol * sum(1.0 / s for s in shape) * (1 + 1e-9), info

    def body():
        g = cu.UniformGrid(origin, axes, np.array([ExactInt(s) for s in shape]), weight=scheme)
        return g.weights
    for p in e.run(body):
        ctx.paths += 1
        if p.exc is not None and isinstance(p.exc, ValueError) and "linearly independent" in str(p.exc):
            ctx.ok("near-singular axes (|det| < 1e-10) are rejected")
            continue
        if p.exc is not None:
            ctx.fail(f"UniformGrid(weight={scheme!r}) constructs in {dim}-D", f"{type(p.exc).__name__}: {p.exc}", key=key + ":raises", replay=replay, model=ctx.model_for(p.pc) or {})
            continue
        ctx.twin(p.pc)
        w = p.result
        vol = K(1)
        for h, s in zip(hs, shape):
            vol = vol * h * s
        ratio = K(0)
        for v in w:
            ratio = ratio + v / vol  # every weight is V times a closed constant: the symbolic steps cancel term by term
        bound = sum(Fraction(1, s) for s in shape)
        (ctx.ok if len(w) == math.prod(shape) else ctx.fail)("one weight per point", detail=str(len(w)), key=key, replay=replay)
        ctx.holds(f"|sum(w)/V - 1| <= sum_i 1/n_i = {bound}", (ratio - 1 <= K(bound)) & (1 - ratio <= K(bound)), p.pc, replay=replay, key=key + ":sum")


def weights_history_oracle():
    """float code, fresh interpreter: grids of the same shape and scheme built one after the other with different axes (and again with the first axes)
    each carry the weights of a grid built alone in a fresh process state -- compared through the scale-free ratio w / V."""
    import warnings
    warnings.simplefilter("ignore")
    import grid.cubic as cu
    bad = {}
    for scheme in ("Rectangle", "Trapezoid", "Fourier1", "Alternative"):
        for shape, axes_list in (((4, 5, 6), [np.eye(3), np.diag([0.1, 0.2, 0.05]), np.array([[0.5, 0.1, 0.0], [0.0, 0.4, 0.1], [0.1, 0.0, 0.3]])]), ((5, 4), [np.eye(2), np.diag([0.3, 0.7])])):
            ref = None
            for k, ax in enumerate(axes_list + axes_list[:1]):
                g = cu.UniformGrid(np.zeros(len(shape)), ax, np.array(shape), weight=scheme)
                vol = abs(np.linalg.det(ax * np.array(shape)[:, None]))
                ratio = g.weights / vol
                if ref is None:
                    ref = ratio
                elif not np.allclose(ratio, ref, rtol=1e-10, atol=1e-14):
                    bad[f"{scheme} {shape} grid #{k}"] = dict(sum_w=float(g.weights.sum()), volume=float(vol))
    return bad


def job_weights_history(ctx: Ctx):
    """history: the second (third, ...) grid of a given shape and weight scheme in one process.  Run in a fresh interpreter (module-level state must be pristine)."""
    import subprocess, json
    cu, bg = _mods()
    ctx.encoded(cu.UniformGrid._choose_weight_scheme)
    out = subprocess.run([sys.executable, "-W", "ignore", "-c", "import json; from harness import C13; print('ORACLE' + json.dumps(C13.weights_history_oracle()))"],
                         capture_output=True, text=True, env=dict(os.environ, PYTHONPATH=f"{harness.VERIF}:{harness.REPO_SRC}"), cwd=harness.VERIF)
    line = [l for l in out.stdout.splitlines() if l.startswith("ORACLE")]
    bad = json.loads(line[0][6:]) if line else {"oracle process failed": out.stderr[-300:]}
    (ctx.ok if not bad else ctx.fail)("float code: weights of consecutively built grids of one shape/scheme with different axes scale with their own volume (4 schemes, 3-D and 2-D)", detail=str(bad)[:300],
                                      key="weights:history", how="ground enumeration (not a solver obligation)", replay=(lambda m: (True, bad)), **({} if not bad else dict(model={})))
    ctx.twins_sat += 1


# ----------------------------------------------------------------------------- (d) from_molecule(rotate=False)
def job_from_molecule(ctx: Ctx, natom, equal_charges=False):
    cu, bg = _mods()
    npproxy.install(cu)
    npproxy.install(bg)
    e = ctx.engine
    ctx.encoded(cu.UniformGrid.from_molecule)
    Z = arr([real(f"Z{i}") for i in range(natom)])
    X = arr([real(f"X{i}_{a}") for i in range(natom) for a in range(3)], (natom, 3))
    spacing, ext = real("spacing"), real("extension")
    # bounded geometry so that the box has few points per axis (the integer shape is enumerated): extent + 2*ext <= 3 spacings
    e.assume(spacing > 0, ext >= spacing, ext <= spacing * 1)
    for i in range(natom):
        e.assume(Z[i] >= 1)
        for a in range(3):
            e.assume(X[i, a] >= 0, X[i, a] <= spacing)
    ctx.bounds.update(dict(atoms=natom, geometry="nuclei within one spacing of each other per axis, extension == spacing (integer shape enumerated); charges symbolic >= 1"))
    key = "from_molecule:containment:" + ("single-atom" if natom == 1 else "equal-charges" if equal_charges else "unequal-charges")
    if equal_charges:
        for i in range(1, natom):
            e.assume(Z[i] == Z[0])

    class Capture(cu.UniformGrid):
        def __init__(self, origin, axes, shape, weight="Trapezoid"):
            self.cap = (origin, axes, shape)

    def replay(m):
        with unpatched(cu, bg):
            z = np.array([float(m.get(f"Z{i}", 1.0)) for i in range(natom)])
            x = np.array([[float(m.get(f"X{i}_{a}", 0.0)) for a in range(3)] for i in range(natom)])
            sp, ex = float(m.get("spacing", 0.2)), float(m.get("extension", 1.0))
            g = cu.UniformGrid.from_molecule(z, x, spacing=sp, extension=ex, rotate=False)
            lo, hi = g.points.min(axis=0), g.points.max(axis=0)
            margin = ex - sp
            bad = bool(np.any(x < lo + margin - 1e-9) or np.any(x > hi - margin + 1e-9))
            return bad, dict(Z=z.tolist(), coords=x.tolist(), spacing=sp, extension=ex, box_lo=lo.tolist(), box_hi=hi.tolist(), required_margin=margin)

    def body():
        g = Capture.from_molecule(Z, X, spacing=spacing, extension=ext, rotate=False)
        return g.cap
    for p in e.run(body):
        ctx.paths += 1
        if p.exc is not None:
            ctx.fail("from_molecule:no-exception", f"{type(p.exc).__name__}: {p.exc}", key=key + ":raises", replay=replay, model=ctx.model_for(p.pc) or {})
            continue
        ctx.twin(p.pc)
        origin, axes, shape = p.result
        margin = ext - spacing
        for a in range(3):
            lo = origin[a]
            hi = origin[a] + (int(shape[a]) - 1) * axes[a, a]
            for i in range(natom):
                ctx.holds(f"nucleus {i} axis {a}: box_lo + (extension - spacing) <= x <= box_hi - (extension - spacing)   [shape={[int(s) for s in shape]}]",
                          (X[i, a] >= lo + margin) & (X[i, a] <= hi - margin), p.pc, replay=replay, key=key)


# ----------------------------------------------------------------------------- (e) closest_point
def job_closest(ctx: Ctx, shape, which):
    cu, bg = _mods()
    npproxy.install(cu)
    e = ctx.engine
    dim = len(shape)
    ctx.encoded(cu.UniformGrid.closest_point, cu._HyperRectangleGrid.coordinates_to_index)
    hs = [real(f"h{a}") for a in range(dim)]
    os_ = [real(f"o{a}") for a in range(dim)]
    pt = [real(f"p{a}") for a in range(dim)]
    cand = [integer(f"c{a}") for a in range(dim)]
    for a in range(dim):
        e.assume(hs[a] > 0, cand[a] >= 0, cand[a] < shape[a])
        e.assume(pt[a] >= os_[a], pt[a] <= os_[a] + (shape[a] - 1) * hs[a])       # query point inside the grid's bounding box
    ctx.bounds.update(dict(shape=shape, which=which, axes="diagonal, symbolic positive steps, symbolic origin", query="any point inside the bounding box"))
    g = object.__new__(cu.UniformGrid)
    g._shape = tuple(shape)
    axes = np.empty((dim, dim), dtype=object)
    for i in range(dim):
        for j in range(dim):
            axes[i, j] = hs[i] if i == j else K(0)
    g._axes = axes
    g._origin = arr(os_)
    key = f"closest_point:{which}"

    def replay(m):
        with unpatched(cu, bg):
            h = [float(m.get(f"h{a}", 1.0)) for a in range(dim)]
            o = [float(m.get(f"o{a}", 0.0)) for a in range(dim)]
            q = np.array([float(m.get(f"p{a}", 0.0)) for a in range(dim)])
            gg = cu.UniformGrid(np.array(o), np.diag(h), np.array(shape))
            got = int(gg.closest_point(q, which))
            d = np.linalg.norm(gg.points - q, axis=1)
            info = dict(shape=shape, steps=h, origin=o, point=q.tolist(), returned_index=got, true_nearest=int(np.argmin(d)))
            if which == "closest":
                bad = not (0 <= got < gg.size) or d[got] > d.min() + 1e-9 * (1 + d.min())
            else:
                cell = np.minimum(np.floor((q - np.array(o)) / np.array(h)).astype(int), np.array(shape) - 1)
                bad = got != int(gg.coordinates_to_index(cell))
            return bad, info
    strides = [math.prod(shape[a + 1:]) for a in range(dim)]

    def body():
        return g.closest_point(arr(pt), which)
    for p in e.run(body):
        ctx.paths += 1
        if p.exc is not None:
            ctx.fail("closest_point:no-exception", f"{type(p.exc).__name__}: {p.exc}", key=key + ":raises", replay=replay, model=ctx.model_for(p.pc) or {})
            continue
        ctx.twin(p.pc)
        idx = p.result
        ctx.holds("returned index in [0, size)", (idx >= 0) & (idx < math.prod(shape)), p.pc, replay=replay, key=key)
        # decode the flat index (row-major, verified by the index-map jobs): integers c_a in range with idx == sum c_a * stride_a
        c = [integer(f"d{a}") for a in range(dim)]
        dec = [(c[a] >= 0) & (c[a] < shape[a]) for a in range(dim)]
        lin = K(0)
        for a in range(dim):
            lin = lin + c[a] * strides[a]
        dec.append(idx == lin)
        for a in range(dim):
            if which == "closest":
                d_ret = (pt[a] - (os_[a] + c[a] * hs[a])) ** 2
                d_cand = (pt[a] - (os_[a] + cand[a] * hs[a])) ** 2
                ctx.holds(f"axis {a}: |p - returned node| <= |p - any node|  (hence nearest in Euclidean distance)", d_ret <= d_cand, p.pc, assume=dec, replay=replay, key=key)
            else:
                f = (os_[a] + c[a] * hs[a] <= pt[a]) & ((pt[a] < os_[a] + (c[a] + 1) * hs[a]) | (c[a] == shape[a] - 1))
                ctx.holds(f"axis {a}: returned node is the lower corner of the cell containing the point", f, p.pc, assume=dec, replay=replay, key=key)


def job_ground_io_interp(ctx: Ctx):
    """clauses whose code path is text I/O or SciPy/sympy numerics (no symbolic encoding): concrete ground checks, reported as such.
    (1) cube round trip for shapes whose size is / is not a multiple of the 6-per-line layout, both unit conventions;
    (2) cubic interpolation reproduces random tri-cubic polynomials and their partial derivatives, also through the log variant (nu <= 3)."""
    cu, bg = _mods()
    ctx.encoded(cu.UniformGrid.generate_cube, cu.UniformGrid.from_cube, cu._HyperRectangleGrid.interpolate)
    import tempfile, warnings, io, contextlib
    warnings.simplefilter("ignore")
    rng = np.random.default_rng(harness.seed() + 5)
    bad = {}
    tmp = tempfile.mkdtemp(prefix="symgrid-cube-", dir="/var/tmp")
    try:
        for shape in ((3, 3, 5), (2, 5, 7), (2, 3, 4), (3, 3, 3)):
            g = cu.UniformGrid(np.array([0.25, -0.5, 1.0]), np.array([[0.5, 0.0, 0.0], [0.125, 0.75, 0.0], [0.0, 0.25, 1.0]]), np.array(shape))
            data = np.round(rng.normal(size=g.size), 3)
            atn, atc = np.array([8, 1]), np.array([[0.5, 0.25, -0.125], [1.0, 0.0, 0.75]])
            fn = os.path.join(tmp, f"t{'x'.join(map(str, shape))}.cube")
            g.generate_cube(fn, data, atc, atn)
            with contextlib.redirect_stdout(io.StringIO()):
                g2, cd = cu.UniformGrid.from_cube(fn, return_data=True)
            if not (np.allclose(g2.points, g.points, atol=1e-5) and np.allclose(cd["data"], data, rtol=1e-4, atol=1e-6) and list(cd["atnums"]) == [8, 1] and np.allclose(cd["atcoords"], atc, atol=1e-5)):
                bad[f"cube {shape}"] = dict(data_tail_written=data[-4:].tolist(), data_tail_read=np.asarray(cd["data"])[-4:].tolist())
            # angstrom convention: negative counts, lengths in angstrom
            lines = open(fn).read().splitlines()
            from grid.utils import ANGSTROM_TO_BOHR
            def conv(line, first):
                parts = line.split()
                return " ".join([str(-int(parts[0])) if first else parts[0]] + [f"{float(v) / ANGSTROM_TO_BOHR:.10f}" for v in parts[1:]])
            lines[2] = " ".join([lines[2].split()[0]] + [f"{float(v) / ANGSTROM_TO_BOHR:.10f}" for v in lines[2].split()[1:]])
            for i in (3, 4, 5):
                lines[i] = conv(lines[i], True)
            for i in (6, 7):
                pr = lines[i].split()
                lines[i] = " ".join(pr[:2] + [f"{float(v) / ANGSTROM_TO_BOHR:.10f}" for v in pr[2:]])
            fn2 = fn.replace(".cube", "_ang.cube")
            open(fn2, "w").write("\n".join(lines) + "\n")
            with contextlib.redirect_stdout(io.StringIO()):
                g3, cd3 = cu.UniformGrid.from_cube(fn2, return_data=True)
            if not (np.allclose(g3.points, g.points, atol=1e-5) and np.allclose(cd3["data"], data, rtol=1e-4, atol=1e-6) and np.allclose(cd3["atcoords"], atc, atol=1e-5)):
                bad[f"cube angstrom {shape}"] = dict(first_point=g3.points[0].tolist(), expected=g.points[0].tolist())
    finally:
        import shutil
        shutil.rmtree(tmp, ignore_errors=True)
    # interpolation of tri-cubic polynomials
    from grid.onedgrid import GaussLegendre
    tg = cu.Tensor1DGrids(GaussLegendre(8), GaussLegendre(9), GaussLegendre(10))
    co = rng.uniform(-0.3, 0.3, size=(4, 4, 4))
    import numpy.polynomial.polynomial as Pn
    def poly(pts, nx=0, ny=0, nz=0):
        c = co
        for _ in range(nx):
            c = Pn.polyder(c, axis=0)
        for _ in range(ny):
            c = Pn.polyder(c, axis=1)
        for _ in range(nz):
            c = Pn.polyder(c, axis=2)
        return Pn.polyval3d(pts[:, 0], pts[:, 1], pts[:, 2], c)
    q = rng.uniform(-0.5, 0.5, size=(3, 3))
    vals = poly(tg.points)
    for nus in ((0, 0, 0), (1, 0, 0), (0, 2, 0), (0, 0, 3), (1, 1, 0)):
        got = tg.interpolate(q, vals, nu_x=nus[0], nu_y=nus[1], nu_z=nus[2])
        want = poly(q, *nus)
        if not np.allclose(got, want, rtol=1e-6, atol=1e-8):
            bad[f"cubic interpolation nu={nus}"] = dict(got=np.asarray(got).tolist(), expected=want.tolist())
    # log variant on a positive function exp(p): derivatives of exp(p) by the chain rule computed independently with sympy-free finite sums
    evals = np.exp(vals)
    for axis, nu in ((0, 1), (1, 2), (2, 3), (0, 3)):
        kw = {("nu_x", "nu_y", "nu_z")[axis]: nu}
        got = tg.interpolate(q, evals, use_log=True, **kw)
        d = [poly(q, *[(k if a == axis else 0) for a in range(3)]) for k in range(1, nu + 1)]
        if nu == 1:
            want = np.exp(poly(q)) * d[0]
        elif nu == 2:
            want = np.exp(poly(q)) * (d[0] ** 2 + d[1])
        else:
            want = np.exp(poly(q)) * (d[0] ** 3 + 3 * d[0] * d[1] + d[2])
        if not np.allclose(got, want, rtol=1e-6, atol=1e-8):
            bad[f"log interpolation axis={axis} nu={nu}"] = dict(got=np.asarray(got).tolist(), expected=want.tolist())
    lin = poly  # trilinear check
    cl = rng.uniform(-1, 1, size=(2, 2, 2))
    vl = Pn.polyval3d(tg.points[:, 0], tg.points[:, 1], tg.points[:, 2], cl)
    gotl = tg.interpolate(q, vl, method="linear")
    if not np.allclose(gotl, Pn.polyval3d(q[:, 0], q[:, 1], q[:, 2], cl), rtol=1e-9, atol=1e-10):
        bad["linear interpolation of a trilinear function"] = dict(got=np.asarray(gotl).tolist())
    (ctx.ok if not bad else ctx.fail)("cube files round-trip (4 shapes incl. sizes not divisible by 6, bohr and angstrom); cubic / log / linear interpolation reproduce tri-cubic (trilinear) polynomials and derivatives up to order 3",
                                      detail=str(bad)[:400], key="io-and-interpolation:ground", how="ground enumeration (not a solver obligation)", replay=(lambda m: (True, bad)), **({} if not bad else dict(model={})))
    ctx.twins_sat += 1


def jobs(tier):
    js = [Job("index/3d", job_index, 3), Job("index/2d", job_index, 2), Job("ground/io+interpolation", job_ground_io_interp), Job("ground/weights-history", job_weights_history)]
    for shape in ([(2, 3, 4), (3, 2)] if tier == "quick" else [(2, 3, 4), (3, 2), (3, 3, 3), (4, 2, 3), (2, 5), (4, 4, 4)]):
        js.append(Job(f"uniform/{shape}", job_uniform, shape))
    for sizes in ([(2, 3, 2), (2, 3)] if tier == "quick" else [(2, 3, 2), (2, 3), (3, 3, 3), (4, 2, 3), (4, 4)]):
        js.append(Job(f"tensor/{sizes}", job_tensor, sizes))
    shapes3 = [(2, 3, 4), (4, 5, 6)] if tier == "quick" else [(2, 3, 4), (3, 3, 3), (4, 5, 6), (5, 4, 2), (6, 6, 6), (8, 5, 7)]
    shapes2 = [(3, 2), (5, 4)] if tier == "quick" else [(3, 2), (4, 4), (5, 4), (7, 5), (9, 8)]
    for scheme in ("Rectangle", "Trapezoid", "Fourier1", "Alternative", "Fourier2"):
        for shape in shapes3 + shapes2:
            js.append(Job(f"weights/{scheme}/{shape}", job_weights, scheme, shape))
    for natom in (1, 2):
        js.append(Job(f"from_molecule/{natom}", job_from_molecule, natom))
        if natom == 2:
            js.append(Job(f"from_molecule/{natom}/equal-charges", job_from_molecule, natom, True))
    for shape in ([(3, 5, 4), (4, 9)] if tier == "quick" else [(3, 5, 4), (4, 9), (2, 2, 2), (6, 4, 5), (7, 4), (3, 5, 8)]):
        for which in ("closest", "origin"):
            js.append(Job(f"closest_point/{shape}/{which}", job_closest, shape, which))
    only = os.environ.get("SYMGRID_ONLY")
    return [j for j in js if not only or only in j.name]


def main():
    t0 = time.time()
    res = harness.run_jobs(jobs(harness.tier()))
    return harness.finish(
        PROP, res, t0, "DESIGN.md#c13",
        bounds=dict(index_maps="symbolic unbounded integer shapes, 2-D and 3-D", layout="concrete shapes up to 4x4x4 with symbolic origin/axes; tensor grids with symbolic nodes",
                    weights="5 schemes x 2-D/3-D x listed shapes, diagonal symbolic axes", from_molecule="<= 2 atoms, rotate=False, extent within one spacing (3 atoms exceed the path budget)",
                    closest_point="concrete non-cubic shapes, symbolic diagonal axes/origin, query inside the bounding box"),
        outside=["from_molecule(rotate=True) (LAPACK eigh)", "cube-file round trip and the interpolation clauses are NOT decided by the solver (text I/O, SciPy splines, sympy): they are covered by one concrete ground job, reported as such",
                 "closest_point for query points outside the bounding box", "IEEE rounding"],
        assumptions=["np.rint ties: either neighbour allowed", "denominators non-zero"])


if __name__ == "__main__":
    sys.exit(main())
