"""C14 - multipole moments equal direct quadrature of their defining integrands (Grid.moments, generate_orders_horton_order, dipole helper)."""
import sys, time, os, itertools, math
import numpy as np
from fractions import Fraction
from symgrid import dag, poly, smt, sym, npproxy, harness
from symgrid.sym import Engine, Sym, real, K, node_of
from symgrid.harness import Job, Ctx
from harness.C03 import unpatched

PROP = "C14"
SQ = lambda q: K(dag.QS.sqrt_rat(Fraction(q)))


def _mods():
    import grid.basegrid as bg, grid.utils as ut
    return bg, ut


def arr(vals, shape=None):
    a = np.empty(len(vals), dtype=object)
    a[:] = vals
    return a if shape is None else a.reshape(shape)


def solid_harmonic(l, m, kind, x, y, z):
    """regular real solid harmonics in Cartesian form, re-typed from the standard tables (independent of utils.py); kind 'c' | 's' for m > 0"""
    r2 = x * x + y * y + z * z
    if l == 0:
        return x * 0 + 1
    if l == 1:
        return {(0, "c"): z, (1, "c"): x, (1, "s"): y}[(m, kind)]
    if l == 2:
        return {(0, "c"): (3 * z * z - r2) / 2, (1, "c"): SQ(3) * x * z, (1, "s"): SQ(3) * y * z, (2, "c"): SQ(3) / 2 * (x * x - y * y), (2, "s"): SQ(3) * x * y}[(m, kind)]
    if l == 3:
        return {(0, "c"): (5 * z ** 3 - 3 * z * r2) / 2, (1, "c"): SQ(Fraction(3, 8)) * x * (5 * z * z - r2), (1, "s"): SQ(Fraction(3, 8)) * y * (5 * z * z - r2),
                (2, "c"): SQ(15) / 2 * z * (x * x - y * y), (2, "s"): SQ(15) * x * y * z, (3, "c"): SQ(Fraction(5, 8)) * (x ** 3 - 3 * x * y * y),
                (3, "s"): SQ(Fraction(5, 8)) * (3 * x * x * y - y ** 3)}[(m, kind)]
    raise NotImplementedError(l)


def horton_pure_rows(lmax):
    rows = []
    for l in range(lmax + 1):
        rows.append((l, 0, "c"))
        for m in range(1, l + 1):
            rows += [(l, m, "c"), (l, m, "s")]
    return rows


def expected_orders(order, type_mom, dim):
    out = []
    rng = range(0, order + 1) if type_mom != "pure-radial" else range(1, order + 1)
    for o in rng:
        if type_mom == "cartesian":
            if dim == 3:
                out += [[a, b, o - a - b] for a in range(o, -1, -1) for b in range(o - a, -1, -1)]
            elif dim == 2:
                out += [[a, o - a] for a in range(o, -1, -1)]
            else:
                out += [[o]]
        elif type_mom == "radial":
            out += [[o]]
        elif type_mom == "pure":
            out += [[o, 0]] + [v for m in range(1, o + 1) for v in ([o, m], [o, -m])]
        else:
            for l in range(o):
                out += [[o, l, 0]] + [v for m in range(1, l + 1) for v in ([o, l, m], [o, l, -m])]
    return out


def float_basis(type_mom, row, d):
    """basis function value (float) for one centred point d (array of dim components)"""
    if type_mom == "cartesian":
        return float(np.prod(d ** np.array(row)))
    rr = float(np.linalg.norm(d))
    if type_mom == "radial":
        return rr ** row[0]
    x, y, z = (float(v) for v in d)
    fx = lambda l, m: float(node_eval(solid_harmonic(l, abs(m), "c" if m >= 0 else "s", K(Fraction(x).limit_denominator(10 ** 9)), K(Fraction(y).limit_denominator(10 ** 9)), K(Fraction(z).limit_denominator(10 ** 9)))))
    if type_mom == "pure":
        return fx(row[0], row[1])
    return rr ** row[0] * fx(row[1], row[2])


def node_eval(s):
    import mpmath
    return dag.evalf(node_of(s), {}, mpmath.mp)


def make_replay(type_mom, order, dim, npts, ncen, atomgrid=False, coincide=False):
    def replay(m):
        bg, ut = _mods()
        with unpatched(bg, ut):
            g = lambda n, d: float(m.get(n, d))
            P = np.array([[g(f"p{i}_{a}", 0.3 * i - 0.2 * a + 0.1) for a in range(dim)] for i in range(npts)])
            W = np.array([g(f"w{i}", 1.0 + i) for i in range(npts)])
            F = np.array([g(f"f{i}", 0.5 + i) for i in range(npts)])
            C = np.array([[g(f"c{j}_{a}", 0.1 * j + 0.05 * a) for a in range(dim)] for j in range(ncen)])
            if coincide:
                C[0] = P[0]          # the first centre sits exactly on the first grid point
            info = dict(type_mom=type_mom, order=order, dim=dim, points=P.tolist(), weights=W.tolist(), f=F.tolist(), centers=C.tolist())
            try:
                if atomgrid:
                    import grid.atomgrid as ag
                    gg = object.__new__(ag.AtomGrid)
                    cc = np.array([g(f"ctr{a}", 0.7 - 0.3 * a) for a in range(3)])
                    gg._points, gg._weights, gg._center = P - cc, W, cc
                else:
                    gg = bg.Grid(P, W)
                got, orders = gg.moments(order, C, F, type_mom, return_orders=True)
            except Exception as ex:
                info["raised"] = f"{type(ex).__name__}: {ex}"
                return True, info
            exp_orders = expected_orders(order, type_mom, dim)
            if np.asarray(orders).reshape(len(orders), -1).tolist() != exp_orders:
                info.update(orders=np.asarray(orders).tolist(), expected_orders=exp_orders)
                return True, info
            want = np.zeros((len(exp_orders), ncen))
            for j in range(ncen):
                for k, row in enumerate(exp_orders):
                    want[k, j] = sum(W[i] * F[i] * float_basis(type_mom, row, P[i] - C[j]) for i in range(npts))
            info.update(returned=np.asarray(got).tolist(), direct_quadrature=want.tolist())
            return (np.asarray(got).shape != want.shape) or (not np.allclose(got, want, rtol=1e-8, atol=1e-10, equal_nan=False)), info
    return replay


def job_moments(ctx: Ctx, type_mom, order, dim, npts, ncen, atomgrid=False, coincide=False):
    bg, ut = _mods()
    npproxy.install(bg)
    npproxy.install(ut)
    e = ctx.engine
    if atomgrid:
        import grid.atomgrid as ag
        npproxy.install(ag)
        ctr = arr([real(f"ctr{a}") for a in range(3)])
    ctx.encoded(bg.Grid.moments, ut.generate_orders_horton_order, ut.solid_harmonics, ut.convert_cart_to_sph, ut.generate_real_spherical_harmonics)
    P = arr([real(f"p{i}_{a}") for i in range(npts) for a in range(dim)], (npts, dim))
    W = arr([real(f"w{i}") for i in range(npts)])
    F = arr([real(f"f{i}") for i in range(npts)])
    C = arr([real(f"c{j}_{a}") for j in range(ncen) for a in range(dim)], (ncen, dim))
    if coincide:
        for a in range(dim):
            C[0, a] = P[0, a]        # a centre that is bit for bit one of the grid points (r = 0 for that pair)
    ctx.bounds.update(dict(type=type_mom, order=order, dim=dim, points=npts, centres=ncen, centre_on_grid_point=coincide))
    key = f"moments:{type_mom}:{dim}d" + (":AtomGrid" if atomgrid else "")
    R = make_replay(type_mom, order, dim, npts, ncen, atomgrid, coincide)
    exp_orders = expected_orders(order, type_mom, dim)

    def mkgrid(pts, w, ctr_):
        if not atomgrid:
            return bg.Grid(pts, w)
        g = object.__new__(ag.AtomGrid)         # an atomic grid stores its points relative to the centre and shifts them on read
        g._points, g._weights, g._center = pts - ctr_, w, ctr_
        return g

    def body():
        return mkgrid(P, W, ctr if atomgrid else None).moments(order, C, F, type_mom, return_orders=True)
    for p in e.run(body):
        ctx.paths += 1
        if p.exc is not None:
            ctx.fail(f"moments({type_mom}, order={order}, dim={dim}) returns", f"{type(p.exc).__name__}: {str(p.exc)[:160]}", key=key + ":raises", replay=R, model=ctx.model_for(p.pc) or {})
            continue
        ctx.twin(p.pc)
        got, orders = p.result
        olist = np.asarray(orders).reshape(len(orders), -1).tolist()
        (ctx.ok if olist == exp_orders else ctx.fail)("returned order list is the documented Horton order", detail=str(olist)[:200], key=key + ":orders", replay=R, **({} if olist == exp_orders else dict(model={})))
        if olist != exp_orders or np.asarray(got).shape != (len(exp_orders), ncen):
            ctx.fail("result has one row per order and one column per centre", detail=str(np.asarray(got).shape), key=key + ":orders", replay=R, model={})
            continue
        for j in range(ncen):
            for k, row in enumerate(exp_orders):
                tot = K(0)
                for i in range(npts):
                    d = [P[i, a] - C[j, a] for a in range(dim)]
                    if type_mom == "cartesian":
                        b = K(1)
                        for a in range(dim):
                            b = b * d[a] ** row[a]
                    else:
                        rr = sum((v * v for v in d), K(0)).sqrt()
                        if type_mom == "radial":
                            b = rr ** row[0]
                        elif type_mom == "pure":
                            b = solid_harmonic(row[0], abs(row[1]), "c" if row[1] >= 0 else "s", *d)
                        else:
                            b = rr ** row[0] * solid_harmonic(row[1], abs(row[2]), "c" if row[2] >= 0 else "s", *d)
                    tot = tot + W[i] * F[i] * b
                if isinstance(got[k, j], sym.NaNMarker):
                    ctx.fail(f"row {row} about centre {j} is a number", "NaN", key=key + ":nan", replay=R, model=ctx.model_for(p.pc) or {})
                    continue
                ctx.eq(f"row {row} about centre {j} == sum_i w_i f_i basis(r_i - R)", got[k, j], tot, p.pc, replay=R, key=key)


def job_history(ctx: Ctx, type_mom, order):
    """history on one grid object: moments, then the points (and weights) are reassigned through the public setters, then the same moments call again
    must equal the call on a freshly built grid of the new points; a repeated call without reassignment equals the first; a second centre after a first."""
    bg, ut = _mods()
    npproxy.install(bg)
    npproxy.install(ut)
    e = ctx.engine
    ctx.encoded(bg.Grid.moments, type(bg.Grid.points).fset if isinstance(bg.Grid.__dict__.get("points"), property) else bg.Grid.moments)
    npts, dim = 1, 3
    P1 = arr([real(f"p{i}_{a}") for i in range(npts) for a in range(dim)], (npts, dim))
    P2 = arr([real(f"q{i}_{a}") for i in range(npts) for a in range(dim)], (npts, dim))
    W = arr([real(f"w{i}") for i in range(npts)])
    W2 = arr([real(f"v{i}") for i in range(npts)])
    F = arr([real(f"f{i}") for i in range(npts)])
    C = arr([real(f"c{a}") for a in range(dim)], (1, dim))
    C2 = arr([real(f"d{a}") for a in range(dim)], (1, dim))
    key = f"moments:{type_mom}:history"

    def replay(m):
        with unpatched(bg, ut):
            rng = np.random.default_rng(11)
            p1, p2, w, f_, c = rng.normal(size=(5, 3)), rng.normal(size=(5, 3)), rng.uniform(0.1, 1, 5), rng.normal(size=5), rng.normal(size=(1, 3))
            g = bg.Grid(p1.copy(), w.copy())
            g.moments(order, c, f_, type_mom)
            g.points = p2.copy()
            second = g.moments(order, c, f_, type_mom)
            fresh = bg.Grid(p2.copy(), w.copy()).moments(order, c, f_, type_mom)
            return (not np.allclose(second, fresh, rtol=1e-10, atol=1e-12)), dict(type=type_mom, after_reassignment=np.asarray(second).ravel()[:6].tolist(), fresh_grid=np.asarray(fresh).ravel()[:6].tolist())

    def body():
        g = bg.Grid(P1.copy(), W.copy())
        first = g.moments(order, C, F, type_mom)
        again = g.moments(order, C, F, type_mom)
        other_centre = g.moments(order, C2, F, type_mom)
        g.points = P2.copy()
        second = g.moments(order, C, F, type_mom)
        g.weights = W2.copy()
        third = g.moments(order, C, F, type_mom)
        fresh1 = bg.Grid(P1.copy(), W.copy())
        fresh2 = bg.Grid(P2.copy(), W.copy())
        fresh3 = bg.Grid(P2.copy(), W2.copy())
        return first, again, other_centre, second, third, fresh1.moments(order, C2, F, type_mom), fresh2.moments(order, C, F, type_mom), fresh3.moments(order, C, F, type_mom)
    for p in e.run(body):
        ctx.paths += 1
        if p.exc is not None:
            ctx.fail(f"history of moments({type_mom}) calls returns", f"{type(p.exc).__name__}: {str(p.exc)[:160]}", key=key, replay=replay, model=ctx.model_for(p.pc) or {})
            continue
        first, again, other, second, third, f_other, f_second, f_third = [np.asarray(v, dtype=object).ravel() for v in p.result]
        for k in range(len(first)):
            ctx.eq(f"row {k}: repeated call == first call", again[k], first[k], p.pc, key=key, replay=replay)
            ctx.eq(f"row {k}: second centre after a first == fresh grid about that centre", other[k], f_other[k], p.pc, key=key, replay=replay)
            ctx.eq(f"row {k}: after `grid.points = new` == fresh grid on the new points", second[k], f_second[k], p.pc, key=key, replay=replay)
            ctx.eq(f"row {k}: after `grid.weights = new` == fresh grid with the new weights", third[k], f_third[k], p.pc, key=key, replay=replay)
    ctx.twin(())


def job_dipole(ctx: Ctx):
    bg, ut = _mods()
    npproxy.install(bg)
    npproxy.install(ut)
    e = ctx.engine
    ctx.encoded(ut.dipole_moment_of_molecule)
    npts, nat = 2, 2
    P = arr([real(f"p{i}_{a}") for i in range(npts) for a in range(3)], (npts, 3))
    W = arr([real(f"w{i}") for i in range(npts)])
    D = arr([real(f"f{i}") for i in range(npts)])
    X = arr([real(f"X{j}_{a}") for j in range(nat) for a in range(3)], (nat, 3))
    key = "dipole"
    for charges in ([8, 1], [1, 1], [6, 9]):
        Z = np.array(charges)

        def replay(m, charges=charges):
            with unpatched(bg, ut):
                g = lambda n, d: float(m.get(n, d))
                Pf = np.array([[g(f"p{i}_{a}", 0.3 * i + 0.1 * a) for a in range(3)] for i in range(npts)])
                Wf = np.array([g(f"w{i}", 1.0) for i in range(npts)])
                Df = np.array([g(f"f{i}", 0.7) for i in range(npts)])
                Xf = np.array([[g(f"X{j}_{a}", 0.5 * j - 0.2 * a) for a in range(3)] for j in range(nat)])
                got = ut.dipole_moment_of_molecule(bg.Grid(Pf, Wf), Df, Xf, np.array(charges))
                masses = np.array([ut.isotopic_masses[c] for c in charges])
                com = (Xf * masses[:, None]).sum(axis=0) / masses.sum()
                want = (np.array(charges)[:, None] * (Xf - com)).sum(axis=0) - (Wf[:, None] * Df[:, None] * (Pf - com)).sum(axis=0)
                # returned components follow the first-order Horton order (x, y, z)
                return not np.allclose(got, want, rtol=1e-10, atol=1e-12), dict(charges=charges, returned=np.asarray(got).tolist(), nuclear_minus_electronic=want.tolist())
        for p in e.run(lambda: ut.dipole_moment_of_molecule(bg.Grid(P, W), D, X, Z)):
            ctx.paths += 1
            if p.exc is not None:
                ctx.fail("dipole_moment_of_molecule returns", f"{type(p.exc).__name__}: {p.exc}", key=key + ":raises", replay=replay, model=ctx.model_for(p.pc) or {})
                continue
            got = np.asarray(p.result, dtype=object).ravel()
            masses = [ut.isotopic_masses[c] for c in charges]
            com = [sum(X[j, a] * masses[j] for j in range(nat)) / sum(masses) for a in range(3)]
            for a in range(3):
                want = sum((charges[j] * (X[j, a] - com[a]) for j in range(nat)), K(0)) - sum((W[i] * D[i] * (P[i, a] - com[a]) for i in range(npts)), K(0))
                ctx.eq(f"charges {charges}: dipole[{a}] == sum_A Z_A (R_A - R_cm) - sum_i w_i rho_i (r_i - R_cm)", got[a], want, p.pc, replay=replay, key=key)


def jobs(tier):
    js = []
    o3 = 2 if tier == "quick" else 3
    for dim in (1, 2, 3):
        js.append(Job(f"cartesian/{dim}d", job_moments, "cartesian", 2 if tier == "quick" else 4, dim, 2, 2 if tier == "quick" else 3))
    js.append(Job("cartesian/3d/3-centres", job_moments, "cartesian", 1, 3, 2, 3))
    js.append(Job("radial/3d", job_moments, "radial", 3, 3, 2, 3))
    js.append(Job("radial/2d", job_moments, "radial", 2, 2, 2, 2))
    js.append(Job("pure/3d", job_moments, "pure", o3, 3, 1, 2))
    js.append(Job("pure/3d/3-centres", job_moments, "pure", 1, 3, 1, 3))
    js.append(Job("pure-radial/3d", job_moments, "pure-radial", o3, 3, 1, 2))
    js.append(Job("pure/atomgrid", job_moments, "pure", 1, 3, 1, 1, True))
    js.append(Job("cartesian/atomgrid", job_moments, "cartesian", 1, 3, 2, 2, True))
    js.append(Job("pure-radial/atomgrid", job_moments, "pure-radial", 1, 3, 1, 1, True))
    for t in ("pure", "pure-radial", "radial", "cartesian"):
        js.append(Job(f"{t}/3d/centre-on-grid-point", job_moments, t, 1, 3, 2, 1, False, True))
    js.append(Job("dipole", job_dipole))
    for t in ("cartesian", "radial", "pure", "pure-radial"):
        js.append(Job(f"history/{t}", job_history, t, 1 if tier == "quick" else 2))
    only = os.environ.get("SYMGRID_ONLY")
    return [j for j in js if not only or only in j.name]


def main():
    t0 = time.time()
    res = harness.run_jobs(jobs(harness.tier()))
    return harness.finish(
        PROP, res, t0, "DESIGN.md#c14",
        bounds=dict(cartesian="order <= 2 (quick) / 4, dimensions 1-3, 2 symbolic points, 2-3 symbolic centres", radial="order <= 3", pure="l <= 2 (quick) / 3, 1 symbolic point, 2-3 centres",
                    pure_radial="n <= 2 / 3", dipole="2 atoms (3 element pairs), 2 grid points, all coordinates symbolic"),
        outside=["orders above the bound", "MultiDomainGrid (moments not implemented there)", "IEEE rounding"],
        assumptions=["regular solid harmonics l <= 3 re-typed in Cartesian form in the harness as the independent definition", "points distinct from the centre on the generic path; the r = 0 and z-axis branches are forked"])


if __name__ == "__main__":
    sys.exit(main())
