#!/bin/sh
# usage: tools/seedrun.sh <PROP> <patch.diff> [tier]   -- apply a seeded change to /repo, run the check, undo it
P=$1; PATCH=$2; TIER=${3:-quick}
cd /repo && git diff --quiet || { echo "/repo is dirty"; exit 3; }
git -C /repo apply "$PATCH" || { echo "patch does not apply"; exit 3; }
cp /verif/evidence/$P.json /tmp/evidence_$P.keep 2>/dev/null
cd /verif && ./check $P --tier $TIER > /tmp/seedrun_$P.out 2>&1; rc=$?
git -C /repo checkout -- .
cp /tmp/evidence_$P.keep /verif/evidence/$P.json 2>/dev/null   # evidence committed must come from the unchanged tree
grep -E "^VIOLATION|^KNOWN|^INCONCLUSIVE" /tmp/seedrun_$P.out | cut -c1-260 | head -6
tail -1 /tmp/seedrun_$P.out | cut -c1-300
echo "exit=$rc"
