#!/bin/sh
# usage: tools/wtrun.sh <PROP> <abs patch> [tier] [only]  -- run a check against a scratch worktree of /repo with the patch applied (leaves /repo untouched)
P=$1; PATCH=$2; TIER=${3:-quick}; ONLY=$4
WT=/tmp/wtrun_$$
git -C /repo worktree add -q --detach $WT HEAD || exit 3
git -C $WT apply "$PATCH" || { echo "patch does not apply"; git -C /repo worktree remove --force $WT; exit 3; }
cd /verif
env SYMGRID_REPO_SRC=$WT/src SYMGRID_EVIDENCE_DIR=/tmp/wtrun_ev_$$ SYMGRID_SCRATCH_DIR=/tmp/wtrun_sc_$$ SYMGRID_ONLY="$ONLY" ./check $P --tier $TIER > /tmp/wtrun_$P.out 2>&1; rc=$?
git -C /repo worktree remove --force $WT; rm -rf $WT /tmp/wtrun_ev_$$ /tmp/wtrun_sc_$$
grep -E "^VIOLATION|^KNOWN|^INCONCLUSIVE|^  obligation" /tmp/wtrun_$P.out | cut -c1-260 | head -8
tail -n 1 /tmp/wtrun_$P.out | cut -c1-300
echo "exit=$rc"
