#!/usr/bin/env python3
"""For every kept seeded change: apply it in a scratch worktree of /repo, run the listed checks against THAT tree (evidence/scratch redirected),
record which checks raise an alarm, and write /verif/seeded/<id>/meta.json.   usage: tools/seed_matrix.py [ids...]"""
import json, os, subprocess, sys, shutil, re
V = "/verif"
EXTRA = {"C12-1": ["C19"], "C12-3": ["C05"], "C15-2": ["C03"], "C16-1": ["C09"], "C17-3": ["C19"], "C07-3": ["C20", "C06"], "C15-1": ["C20"], "C16-3": ["C20"], "C14-2": ["C05"], "C09-2": ["C20"], "C07-5": ["C06"], "C15-5": ["C03"], "C05-5": ["C19"], "C09-5": ["C19"], "C14-4": ["C19"], "C16-7": ["C09"], "C15-7": ["C03"], "C08-6": ["C20"]}


def sh(cmd, **kw):
    return subprocess.run(cmd, shell=True, capture_output=True, text=True, **kw)


def main(ids):
    seeds = sorted(d for d in os.listdir(f"{V}/seeded") if re.fullmatch(r"C\d\d-\d+", d))
    if ids:
        seeds = [s for s in seeds if s in ids]
    wt = os.environ.get("MATRIX_WT", "/tmp/matrix_wt")
    sh(f"git -C /repo worktree remove --force {wt}; rm -rf {wt}")
    sh(f"git -C /repo worktree add -q --detach {wt} HEAD")
    env = dict(os.environ, SYMGRID_REPO_SRC=f"{wt}/src", SYMGRID_EVIDENCE_DIR=wt + "_evidence", SYMGRID_SCRATCH_DIR=wt + "_scratch", SYMGRID_PROCS="8")
    for sid in seeds:
        d = f"{V}/seeded/{sid}"
        prop = sid.split("-")[0]
        ap = sh(f"git -C {wt} checkout -q -- . && git -C {wt} apply {d}/patch.diff")
        results = {}
        if ap.returncode != 0:
            results["apply"] = "patch no longer applies to the current HEAD: " + ap.stderr[:200]
        else:
            for chk in [prop] + EXTRA.get(sid, []):
                r = subprocess.run(f"timeout 3000 {V}/check {chk} --tier quick", shell=True, capture_output=True, text=True, env=env, cwd=V)
                last = (r.stdout.strip().splitlines() or [""])[-1]
                viol = [l for l in r.stdout.splitlines() if l.startswith("VIOLATION")]
                first = next((l for l in r.stdout.splitlines() if l.startswith("  obligation=")), "")
                results[chk] = dict(exit=r.returncode, violations=len(viol), summary=last[:300], first_violation=first[:400])
        sh(f"git -C {wt} checkout -q -- .")
        conf = json.load(open(f"{d}/confirm.json")) if os.path.exists(f"{d}/confirm.json") else {}
        notes = open(f"{d}/notes.md").read() if os.path.exists(f"{d}/notes.md") else ""
        detected = [c for c, r in results.items() if isinstance(r, dict) and r["exit"] == 1]
        meta = dict(id=sid, breaks_property=prop, source="independent sub-agent given only the property text and a scratch worktree",
                    what_it_needs_to_manifest=notes.strip()[:1500], confirmation=conf,
                    ran=[f"SYMGRID_REPO_SRC=<worktree>/src ./check {c} --tier quick  (worktree = /repo HEAD + patch.diff)" for c in results],
                    check_results=results, detected_by=detected,
                    status="detected" if detected else ("outside the claimed scope / not detected" if all(isinstance(r, dict) and r["exit"] == 0 for r in results.values()) else "inconclusive (exit 2) or patch conflict"))
        json.dump(meta, open(f"{d}/meta.json", "w"), indent=1)
        print(sid, "->", meta["status"], {c: (r["exit"] if isinstance(r, dict) else r) for c, r in results.items()}, flush=True)
    sh(f"git -C /repo worktree remove --force {wt}; rm -rf {wt} {wt}_evidence {wt}_scratch")


if __name__ == "__main__":
    main(sys.argv[1:])
