#!/usr/bin/env python3
"""print the prompt given to a seeding sub-agent for property <id> (only the property text + a scratch worktree)."""
import json, sys
pid = sys.argv[1]
wave = sys.argv[2] if len(sys.argv) > 2 else "1"
wt = f"/tmp/seed_{pid}" if wave == "1" else f"/tmp/seed{wave}_{pid}"
NCH = "THREE" if wave == "1" else "TWO"
KS = "1, 2, 3" if wave == "1" else "1, 2"
for l in open("/verif/properties.jsonl"):
    p = json.loads(l)
    if p["id"] == pid:
        break
print(f"""You are helping to evaluate a verification effort by playing the role of a developer who introduces a subtle regression.

The project is theochem/grid (pure-Python library: 1D quadratures, radial transforms, Lebedev/atomic/molecular Becke grids, interpolation, Poisson/ODE solvers).
You have your own scratch git worktree of it at {wt} (work ONLY there; never touch /repo or /verif, never read anything under /verif).
Python: /venv/bin/python. IMPORTANT: the package is installed in editable mode pointing at /repo/src, so ALWAYS run with
`cd {wt} && PYTHONPATH={wt}/src /venv/bin/python ...` so that your worktree's code is the one imported (check with `import grid; print(grid.__file__)`).
There is no network.

The semantic property that must hold for this library:

  Title: {p['title']}
  Statement: {p['statement']}
  Quantified over: {p['quantifier']['text']}
  Relevant files: {', '.join(p['anchors'].get('files', []))}

Your task: produce {NCH} independent, different changes to the library source (under {wt}/src/grid, not the tests) each of which BREAKS this property
while the code still imports/compiles and the EXISTING test suite still passes unchanged. Each change should be realistic (the kind of slip a developer makes in a
refactor or an "optimisation": off-by-one, wrong branch condition, a dropped copy, swapped argument, wrong constant for one parameter value, a stale cache ...)
and must need something SPECIFIC to manifest - an unusual input or parameter value, a particular size/parity, a multi-step sequence of operations, a particular
branch, or two cooperating sites that each look fine alone - NOT something that ordinary use or the existing tests would expose at once.
Vary the changes: different functions / mechanisms / clauses of the property where possible.

For each change k = {KS} deliver, in the directory {wt}/out/ (create it):
  - patch_k.diff : `git diff` of that change ALONE against the worktree's HEAD (apply with `git apply`); the patches must be independent alternatives, each applying to a clean HEAD.
  - demo_k.py    : a small self-contained script (run as `PYTHONPATH=<worktree>/src /venv/bin/python demo_k.py`) that exits 0 on the unmodified library and exits non-zero
                   (assertion failure with a clear message) when patch_k is applied. It must demonstrate a violation of the property as stated above (use only the public API
                   or the functions named in the property), not merely a difference from the old behaviour.
  - notes_k.md   : 5-10 lines: what was changed, which clause of the property it breaks, what specific input/sequence is needed for it to manifest, and why the existing tests do not notice.

How to check the test suite: first run the test files most related to your change, e.g.
  cd {wt} && PYTHONPATH={wt}/src /venv/bin/python -m pytest -q -p no:cacheprovider -x src/grid/tests/test_<area>.py
and before you finish, for each patch, run the whole suite once:
  cd {wt} && PYTHONPATH={wt}/src /venv/bin/python -m pytest -q -p no:cacheprovider -n 3 src/grid/tests
(the whole suite takes roughly 10-20 minutes with -n 3; a patch that makes any existing test fail is not acceptable - find another change. One test,
test_ode.py::test_transform_and_rearrange_to_explicit_ode_with_simple_boundary, is known to be flaky under CPU load; re-run it alone if it fails.)
Confirm for each patch: demo_k.py fails with the patch applied and passes on clean HEAD. Leave the worktree at clean HEAD (git checkout -- .) when done; keep only the out/ directory.
Do not modify or add tests inside src/grid/tests. Do not commit.

Finish with a short report listing, per patch, the file/function changed, what is needed to trigger it, and the result of the full test-suite run.""")
