#!/bin/sh
# run every claimed check (quick by default) on the current tree, sequentially; print one line each
TIER=${1:-quick}
cd /verif
for P in $(python3 -c "import json;print(' '.join(c['property_id'] for c in json.load(open('MANIFEST.json'))['checks']))"); do
  ./check $P --tier $TIER > /tmp/runall_$P.out 2>&1; rc=$?
  echo "$P exit=$rc :: $(tail -1 /tmp/runall_$P.out | cut -c1-220)"
done
