#!/bin/sh
# usage: tools/confirm_seed.sh <PROP> <k> <srcdir> [dest-index]   e.g. C18 1 /tmp/seed_C18/out   (dest-index: number used in /verif/seeded/<PROP>-<n>, default k)
# Confirms a seeded change in a scratch worktree: applies, demo fails with / passes without, full existing suite passes with it.
P=$1; K=$2; SRC=$3; N=${4:-$K}; ID=$P-$N
DST=/verif/seeded/$ID; WT=/tmp/confirm_$ID
mkdir -p $DST
cp $SRC/patch_$K.diff $DST/patch.diff; cp $SRC/demo_$K.py $DST/demo.py; cp $SRC/notes_$K.md $DST/notes.md 2>/dev/null
git -C /repo worktree remove --force $WT 2>/dev/null; rm -rf $WT
git -C /repo worktree add -q --detach $WT HEAD || exit 3
cd $WT
PYTHONPATH=$WT/src /venv/bin/python -W ignore $DST/demo.py > $DST/demo_clean.log 2>&1; RC_CLEAN=$?
git apply $DST/patch.diff; RC_APPLY=$?
PYTHONPATH=$WT/src /venv/bin/python -W ignore $DST/demo.py > $DST/demo_patched.log 2>&1; RC_PATCHED=$?
PYTHONPATH=$WT/src /venv/bin/python -W ignore -c "import grid" >/dev/null 2>&1; RC_IMPORT=$?
PYTHONPATH=$WT/src nice -n 10 /venv/bin/python -m pytest -q -p no:cacheprovider -n 4 --timeout=900 src/grid/tests > $DST/suite.log 2>&1; RC_SUITE=$?
SUMMARY=$(tail -1 $DST/suite.log)
if [ $RC_SUITE -ne 0 ]; then
  # known flaky test under load: retry failures once, sequentially
  FAILED=$(grep -E "^FAILED" $DST/suite.log | sed 's/^FAILED //; s/ - .*//' | tr '\n' ' ')
  if [ -n "$FAILED" ]; then
    PYTHONPATH=$WT/src /venv/bin/python -m pytest -q -p no:cacheprovider --timeout=900 $FAILED > $DST/suite_retry.log 2>&1; RC_SUITE=$?
    SUMMARY="$SUMMARY | retry of failed: $(tail -1 $DST/suite_retry.log)"
  fi
fi
tail -5 $DST/suite.log > $DST/suite_tail.log; rm -f $DST/suite.log
cd /; git -C /repo worktree remove --force $WT; rm -rf $WT
cat > $DST/confirm.json <<J
{"id": "$ID", "property": "$P", "base_commit": "$(git -C /repo rev-parse --short HEAD)", "patch_applies": $RC_APPLY, "imports": $RC_IMPORT,
 "demo_exit_clean": $RC_CLEAN, "demo_exit_patched": $RC_PATCHED, "suite_exit_patched": $RC_SUITE, "suite_summary": "$(echo $SUMMARY | tr -d '"')",
 "commands": ["git worktree add --detach $WT HEAD", "PYTHONPATH=$WT/src /venv/bin/python demo.py (clean, then with patch.diff applied)",
              "PYTHONPATH=$WT/src /venv/bin/python -m pytest -q -p no:cacheprovider -n 4 --timeout=900 src/grid/tests (patch applied)"]}
J
echo "$ID clean=$RC_CLEAN patched=$RC_PATCHED suite=$RC_SUITE :: $SUMMARY"
