#!/usr/bin/env python3
"""Regenerate MANIFEST.json from the table below (single source of truth for claimed / not-applicable properties)."""
import json, os
HERE = os.path.dirname(os.path.dirname(os.path.abspath(__file__)))

TECH = "bounded symbolic execution of the real Python/NumPy code on exact symbolic scalars + z3 (unsat = holds for all values within the bound; sat = replayed counterexample)"

CLAIMED = {
    "C03": dict(
        text="All methods of the 12 transform classes are executed on a symbolic interior point and symbolic real parameters (integer exponents enumerated); "
             "z3 decides, for all reals under the documented preconditions, that deriv/deriv2/deriv3 are the derivatives of the executed transform (oracle: symbolic "
             "differentiation of the executed expression), that inverse and transform undo each other, that the inverse-derivative formulas and InverseRTransform are "
             "consistent, and that the derivative keeps one strict sign. Bounded proof: exponents k,m <= 4 (quick) / 6 (thorough).",
        note="floats read as exact reals; exp/log/power via monotone-inverse axioms; denominators of executed expressions assumed non-zero; end points / trim_inf values and non-integer exponents outside the claim",
        ref="DESIGN.md#c03"),
}

CLAIMED.update({
    "C04": dict(
        text="The real transform_1d_grid + OneDGrid.__init__ are executed on a symbolic grid (1-3/4 symbolic nodes, weights, sub-domain) with an ABSTRACT strictly monotone transform "
             "(uninterpreted T, T'; both directions; finite / trimmed / infinite image of the singular end): z3 decides nodes = T(x), weights = w|T'|, non-negativity, the quadrature-sum identity "
             "for an uninterpreted integrand, ordered image domain containing every node, no exception on any path. A contract job per concrete class (all 12, exponents <= 4/6) discharges on the real "
             "code that deriv is the derivative, keeps one strict sign, and that the finite end points map to the codomain ends (incl. the Jacobian at a node on x=-1).",
        note="assume/guarantee split: wiring claims hold for every transform satisfying the monotone contract; floats as reals; images assumed below the 1e16 stand-in for infinity; Gauss-Legendre transported exactness outside",
        ref="DESIGN.md#c04"),
    "C12": dict(
        text="CrossHair executes the real _get_degree_and_size and the loader's validation/file-name rule (recompiled from current source with only the f-string error messages stubbed) on a symbolic int; "
             "per chunk of the request range it confirms over all paths that the result equals the smallest supported (degree,size) pair not below the request and that the file the loader opens is shipped; "
             "unbounded rejection contracts for requests below 0 / above the maximum. Complete over all integers (no bound) for the scalar rule.",
        note="CrossHair's int/dict/bisect models trusted; tables' mutual-inverse/ascending/file-existence are ground facts; the vectorised converter is a ground enumeration reported separately (not a solver obligation)",
        ref="DESIGN.md#c12", technique="CrossHair symbolic execution of the real lookup code with z3 per path (confirmed over all paths), chunked over the request range"),
    "C13": dict(
        text="Real cubic.py code on symbolic data: index maps with symbolic UNBOUNDED integer shapes (round trip, range; converse direction for every concrete shape <= 4/7 per axis), lexicographic layout of "
             "UniformGrid (symbolic origin/skewed axes) and Tensor1DGrids (symbolic nodes, tensor weights, separable integrals), all 5 weight schemes in 2-D/3-D against the sum bound, "
             "from_molecule(rotate=False) containment with symbolic charges/coordinates, closest_point optimality for symbolic steps/origin/query.",
        note="cube-file I/O, spline interpolation (SciPy/sympy) and rotate=True (LAPACK) are outside; known findings: Fourier2 (2-D IndexError, 3-D sum 0), from_molecule containment for unequal charges",
        ref="DESIGN.md#c13"),
    "C18": dict(
        text="MultiDomainGrid.integrate (vectorised, point-by-point for EVERY chunk size 1..size+1, cached-array integrand), size, points and weights generators are executed on grids with symbolic points/weights "
             "and an uninterpreted integrand; every result is shown equal to the independently built nested product sum; separable integrands factorise.",
        note="bounded: <= 3/4 domains, <= 3/4 nodes each, 1-D/3-D mixed, repeated-grid mode; identities close by the DAG's canonical form / normalisation, z3 is used for reachability twins and counterexamples",
        ref="DESIGN.md#c18"),
})

CLAIMED["C01"] = dict(
    text="Constructors of onedgrid.py are executed with exact arithmetic (cos(pi k/M) as exact algebraic numbers): Clenshaw-Curtis, Fejer-1/2, trapezoid, midpoint n=2..9 (quick)/2..20 and Simpson are "
         "shown exact for ALL polynomials of the nominal degree (symbolic coefficients, one obligation per rule and n); the 7 variable-substitution rules satisfy weight_k = step*g'(k*step) for a symbolic step; "
         "Trefethen polynomial and strip maps: derivative routines equal the derivative of the executed map (symbolic rho, s, incl. the end-point limit), class wiring; weight division of the Gauss rules around "
         "stubbed node providers for symbolic alpha > -1; node count/order/domain for every rule.",
    note="Gauss-Legendre/Laguerre/Chebyshev node VALUES come from LAPACK/SciPy and are outside (stub contract); closed cos(pi q) identities are decided by cyclotomic normalisation or z3 on the Chebyshev chain; known finding: FejerSecond; fixed: FejerFirst odd n",
    ref="DESIGN.md#c01")

CLAIMED["C10"] = dict(
    text="The real get_localgrid / LocalGrid / points & weights setters / __getitem__ are executed on grids of every type (plain 1-3-D, OneDGrid, AtomGrid with symbolic centre, MolGrid, UniformGrid, "
         "Tensor1DGrids, AngularGrid, PeriodicGrid without lattice) holding 2-4 symbolic points, with symbolic centre and radius; every path (all 2^n inside/outside patterns incl. the empty ball, r = inf) "
         "is explored and z3 decides that the returned index set is exactly {i : |p_i - c| <= r} w.r.t. the CURRENT public points after histories of queries and reassignments; "
         "index selection by int, np.int64/32, negative int, slice, index array and mask returns the same type, the selected rows and the same domain/lattice.",
    note="cKDTree replaced by a stub with the stated contract (snapshot + exact ball query); subclass instances carry symbolic state via Grid.__init__ / direct attributes; empty index selections outside",
    ref="DESIGN.md#c10")

CLAIMED["C11"] = dict(
    text="Range lemma on the real box computation of PeriodicGrid.get_localgrid (recompiled from current source with only `.astype(int)` and `range` stubbed so the box stays symbolic): for every integer "
         "translation n, every point, centre and radius r >= 0 (all unbounded), an image inside the sphere implies ilc_min <= n <= ilc_max - for 6/14 concrete rational 2-D/3-D lattices (skewed, negative, "
         "fewer vectors than dimensions) and for a 1-D grid with a fully symbolic lattice vector of either sign; wiring jobs run the real __init__ (wrap on/off) and get_localgrid with the k-d tree stub and "
         "decide on every path that the result is exactly the set of (point, translation) pairs inside, each once, with parent weight/index and stored position p - n.A; no lattice = plain grid; empty spheres return empty grids.",
    note="cKDTree and np.linalg.svd replaced by stated contracts (the svd contract is a ground check per lattice); Cauchy-Schwarz / monotonicity steps are discharged as separate lemma obligations and used as instances; fully symbolic 2-D/3-D lattices outside",
    ref="DESIGN.md#c11")

CLAIMED.update({
    "C17": dict(
        text="coulomb_gaussian_s/p are executed on symbolic alpha > 0 and r >= 0 (both branches of the 1e-12 switch, erf as an atom with its derivative): z3/normalisation decide the radial Poisson equation "
             "(r V)'' = -4 pi r rho for the DOCUMENTED density, the value below the switch against the r->0 limit, far-field and continuity bounds, the unnormalised factor, and coulomb_potential as the "
             "coefficient-weighted sum over symbolic s and p centres; the element table is walked completely (all symbols/numbers, 5 spellings, with in-place edits between loads).",
        note="erf derivative and bounds are stated assumptions; distances in the superposition job via a keyed norm stub; the table walk is a ground enumeration; known finding: the p-type closed form",
        ref="DESIGN.md#c17"),
    "C19": dict(
        text="Histories over a 9-operation alphabet (constructions with cache on/off across methods sharing a degree key, writes of fresh SYMBOLS into every returned array, AtomGrid/shell extraction, rotation, "
             "integration) are enumerated up to length 3/4 on the real code with the shipped data as exact constants; afterwards fresh AngularGrid (cache on and off) and AtomGrid must be the shipped constants "
             "for every written value (symbolic taint). Same for the b-scaled transforms (all call sequences <= 2/3 steps with in-place edits, b given or inferred) and the Coulomb table.",
        note="bounded histories and small degrees; np.load contents read natively; a non-constant observation is handed to z3 for a concrete written value and replayed on the float code",
        ref="DESIGN.md#c19"),
    "C20": dict(
        text="~190 public entry points / aliasing patterns (all transform methods, transform_1d_grid, Grid.integrate/moments/get_localgrid/__getitem__, PeriodicGrid, UniformGrid incl. from_molecule and "
             "closest_point, Tensor1DGrids, MultiDomainGrid.integrate, the ODE helpers and the func closures of both ODE drivers, BeckeWeights routes) are executed on write-protected symbolic arrays on every path; "
             "callbacks return fresh arrays, their argument or one cached write-protected array; afterwards every input and every array handed out by a callback is identical to its snapshot; Poisson option dictionaries concretely.",
        note="path coverage comes from the symbolic contents (z3 decides feasibility of each branch); the Poisson option-dictionary entries are concrete runs with stubbed ODE drivers; constructors that need shipped data are covered by C19",
        ref="DESIGN.md#c20"),
})

CLAIMED["C14"] = dict(
    text="Grid.moments (all four types, return_orders), generate_orders_horton_order and dipole_moment_of_molecule are executed on symbolic points, weights, function values and centres (plain grids in 1-3 "
         "dimensions and an AtomGrid with a symbolic centre); every returned entry is shown equal to sum_i w_i f_i basis(r_i - R) with the basis built independently (monomials, |r-R|^n, regular solid harmonics "
         "re-typed in Cartesian form), the order list is the documented Horton order, and the dipole equals nuclear minus electronic first moments about the centre of mass.",
    note="orders <= 2/4 (Cartesian), l <= 2/3 (pure), <= 3 symbolic centres; angles are unit-circle pairs so poles / axes are forked, not excluded; fixed: 1-D Cartesian orders",
    ref="DESIGN.md#c14")

CLAIMED["C06"] = dict(
    text="Assume/guarantee: lemma jobs discharge on the real _switch_func (one step: range, strict monotonicity, oddness, fixed points; order k = k-fold composition), _calculate_alpha (|a| <= 0.45, antisymmetry) and the "
         "nu-map; main jobs execute generate_weights / compute_atom_weight / compute_weights / __call__ (real chunking) with the switching polynomial cut to an uninterpreted function carrying that contract and "
         "np.linalg.norm replaced by the metric contract: sum_A w_A = 1, 0 <= w <= 1, w_A(nucleus A) = 1 and w_A(nucleus B) = 0, equality of all routes for EVERY segmentation, relabelling, in-place edits of "
         "the geometry on one instance; Hirshfeld = pro-atom density share on every segmentation incl. empty segments.",
    note="N <= 4 (quick) / 5 atoms incl. elements without Bragg radius; distances are metric symbols (Euclidean realisation assumed); range clause only for N <= 3; pro-atom splines uninterpreted",
    ref="DESIGN.md#c06")

CLAIMED["C08"] = dict(
    text="generate_real_spherical_harmonics is executed for arbitrary directions (angles as unit-circle pairs, so every theta/phi incl. poles and out-of-range angles) up to l_max 6/12: addition theorem for every l, "
         "d^2Y/dtheta^2 = -m^2 Y with the documented row order and cos-before-sin, the Laplace-Beltrami eigen-equation (harmonicity of r^l Y_lm), pole values, identification with independently typed solid harmonics "
         "for l <= 3 (definition, sign, normalisation); solid_harmonics = sqrt(4pi/(2l+1)) r^l Y_lm; convert_cart_to_sph reconstructs every point for symbolic point and centre on all branches; the Jacobian of "
         "convert_derivative_from_spherical_to_cartesian satisfies the chain rule and its degenerate branches; with scipy's sph_harm_y / sph_harm_y_all replaced by their documented definition, the SciPy-based "
         "implementation equals the recursion row by row and the derivative routine returns dY/dtheta and dY/dphi (away from the poles) for l_max 3/6.",
    note="SciPy's compiled Y_l^m is a stub carrying its documented definition (Condon-Shortley phase); floating-point effects at the poles and at very high degree are outside; trigonometric identities are decided by normalisation modulo c^2+s^2=1, inequalities by z3",
    ref="DESIGN.md#c08")

CLAIMED.update({
    "C05": dict(
        text="The real AtomGrid constructor (_generate_atomic_grid, points, get_shell_grid with and without r^2) runs on radial grids with symbolic radii, weights and centre for the smallest shipped degrees of all "
             "four methods, by degrees / single degree / sizes, rotation seeds 0/1/5/9/37: every point equals centre + r_i (Q_i u_k), every weight w_i r_i^2 omega_k with u, omega the shipped constants and Q_i the "
             "matrix of seed+i computed independently per shell; index table, degrees, translation by the centre, shell extraction; sector -> degree rule for symbolic radial points and sector radii on every path; "
             "from_preset argument fan-out for 17 presets x 7/86 elements x 3 methods with a symbolic centre (degrees never coarser than tabulated); cross-method size histories.",
        note="shipped data lifted to exact constants; Rotation.random run natively (orthogonality as ground fact); presets are checked at the level of constructor arguments, not by building each grid",
        ref="DESIGN.md#c05"),
    "C07": dict(
        text="MolGrid.__init__ / get_atomic_grid / __getitem__ / integrate run on 1-3 real AtomGrids with symbolic radial grids and centres, aim weights as a symbolic array and as a callable returning "
             "uninterpreted values, store on and off: concatenation order, index table, weights = atomic * aim, integral = sum of atomic integrals of w_A f, independence of `store`, per-atom views; "
             "from_size / from_preset / from_pruned hand every atom its own radial grid (OneDGrid / list / dict / default by element), preset or sectors, symbolic centre and seed (recording stubs); "
             ">= 4 atoms with the real chunked BeckeWeights keep the index table intact.",
        note="known finding: mol[i] weights depend on `store`; the 1 % end-to-end charge clause is outside; the 4-5 atom Becke case is a concrete run",
        ref="DESIGN.md#c07"),
})

CLAIMED.update({
    "C09": dict(
        text="integrate_angular_coordinates, radial_component_splines, spherical_average, interpolate (value, radial, spherical and Cartesian derivatives) and MolGrid.interpolate are executed on real AtomGrids "
             "(uniform and mixed degrees, a node at r = 0, symbolic radii/centre) with a symbolic function value at every grid point and CubicSpline replaced by a recording stub: the angular integral is "
             "sum_k f_k omega_k on every shell (regenerated sphere at r = 0) and re-weights to grid.integrate; every spline node is the projection sum_k f_k Y_lm(k) omega_k with the truncation rule on coarser "
             "shells; the interpolant is sum_lm S_lm(r) Y_lm(theta, phi) at a symbolic point, its derivatives follow the chain rule; the molecular interpolant is the sum of atomic interpolants of w_A f.",
        note="exact recovery of band-limited functions (needs C02 and SciPy's spline solver) is outside; the angular-derivative routine is an uninterpreted stub; a cross-instance history (rotation seeds) is a concrete run",
        ref="DESIGN.md#c09"),
    "C15": dict(
        text="The transformation algebra of ode.py is executed with uninterpreted coefficient functions, right-hand side, transform r(x) (with first to third derivative) and solution Y: "
             "sum_k a_k d^k/dx^k Y(r(x)) == sum_j b_j Y^(j) for orders 1-3 (oracle: symbolic differentiation through uninterpreted functions); both drivers hand SciPy the explicit system "
             "(y_1, .., (f - sum b_j y_j)/b_K), the prescribed boundary / initial data mapped by the chain rule and the mesh r(x); the returned callable maps values and derivatives back "
             "(also after in-place refills of its argument); the caller's initial data stay intact.",
        note="solve_bvp / solve_ivp / scipy.linalg.solve / sympy.bell are stubs (capturing, exact 2x2 solve, Bell recurrence); convergence and accuracy of the integrators are outside",
        ref="DESIGN.md#c15"),
    "C16": dict(
        text="_solve_poisson_bvp/ivp_atomgrid are executed on a duck-typed atomic grid with uninterpreted harmonic components: for every (l,m) the captured problem is u_rr - l(l+1)/r^2 u = -4 pi r rho_lm with "
             "u(0)=0, u(inf)=Q/Y_00 delta_l0 (resp. the IVP form with its initial data), mesh and options merged without touching the caller's dict; the closure recombines sum (u_lm/r) Y_lm; the molecular helper "
             "feeds atom A with (w_A rho) on its segment and sums; interpolate_laplacian = sum (S_rr + 2 S_r/r - l(l+1)S/r^2) Y_lm; solve_poisson_robust: residual = rho - sum core densities (identically 0 on the core "
             "model) and total = sum_A analytic core potential of atom A + potential of the residual.",
        note="ODE drivers, splines, Coulomb routine and parameter loader are capturing stubs; accuracy statements and the NNLS split are outside; the spline truncation rule itself is C09",
        ref="DESIGN.md#c16"),
})

NOT_APPLICABLE = {
    "C02": "no symbolic input: validating 450 shipped data files against harmonics up to degree 325 is floating-point enumeration of concrete runs, outside solver-based checking and outside solver reach (the table/lookup half is decided in C12)",
}
PENDING = "check not built yet in this round (planned, see DESIGN.md); not claimed until its harness passes on the pinned tree and kills its seeded mutants"


GROUND = {
    "C01": "ground job (float code, real node providers): Gauss-Legendre / Chebyshev 1,2 / generalised Laguerre exact for every degree <= 2n-1 at sampled n",
    "C04": "Grid.integrate incl. complex integrands is decided by the solver; ground job: integer-dtype nodes give the same grid as their float copy",
    "C05": "presets: all 86 elements on every run; table layout read off the data, not off the branch taken",
    "C06": "ground job lemma/radii: Bragg-radius fallback for all 86 elements on both routes",
    "C07": "ground jobs: end-to-end one-percent clause on 17 presets x 3-5 molecules (known finding: count-layout presets with the default radial grid)",
    "C08": "ground job: float range (l_max 200) and pole convention of the derivative routine",
    "C09": "ground jobs: band-limited recovery on 5 real grids, MolGrid.interpolate vs independently built atoms, derivative on the z-axis / at the centre (known finding)",
    "C12": "ground jobs: converter over every size, all 450 supported grids built with the cache on",
    "C13": "ground job: cube round trip and cubic/log/linear interpolation reproduction",
    "C14": "history jobs (points / weights reassigned) are solver-decided",
    "C16": "ground jobs: robust-core exactness, atomic BVP/IVP accuracy (thorough: linearity, molecule) on the float code with the real SciPy drivers",
    "C19": "ground job: object-reuse battery on AtomGrid / MolGrid",
    "C20": "68 concrete end-to-end runs on write-protected inputs complement the symbolic entry points",
}


def main():
    props = [json.loads(l)["id"] for l in open(os.path.join(HERE, "properties.jsonl"))]
    checks = []
    for pid in props:
        if pid not in CLAIMED:
            continue
        c = CLAIMED[pid]
        checks.append(dict(
            property_id=pid,
            quick_cmd=f"./check {pid} --tier quick",
            thorough_cmd=f"./check {pid} --tier thorough",
            evidence_file=f"/verif/evidence/{pid}.json",
            replay_cmd_template=f"./check {pid} --replay {{path}}",
            engine="symgrid",
            level_claimed=dict(category="proof", text=c["text"], design_ref=c["ref"]),
            level_note=c["note"] + ("; NOT solver results, reported separately as ground/concrete: " + GROUND[pid] if pid in GROUND and "ground" in GROUND[pid] or pid == "C20" else ("; " + GROUND[pid] if pid in GROUND else "")),
            technique=c.get("technique", TECH)))
    na = [dict(property_id=p, reason=NOT_APPLICABLE.get(p, PENDING)) for p in props if p not in CLAIMED]
    man = dict(
        version=1,
        setup_cmd="./setup.sh",
        hooks=dict(guard="THEOCHEM_GRID_VERIF", enable="no hooks: the analysis replaces module globals at run time in its own process; nothing in /repo is guarded",
                   baseline_off_cmd="cd /repo && /venv/bin/python -m pytest -ra -q -p no:cacheprovider --timeout=900 --continue-on-collection-errors",
                   source_commits=[], add_only=True),
        engines=[dict(name="symgrid", path="/verif/symgrid", serves_properties=sorted(CLAIMED),
                      kind_free_text="symbolic execution of the real NumPy code on object arrays of exact expression-DAG scalars; path forking on symbolic branches; "
                                     "division-free translation to z3 (QF_NRA/NIA); polynomial normalisation in the encoder; CrossHair for pure-integer code")],
        checks=checks,
        notes="Every check regenerates its encoding from /repo/src on each run (fresh process, no cache). Exit 0 = all obligations unsat; 1 = replayed violation; 2 = inconclusive/harness error. "
              "known_findings.json lists recorded/fixed defects.",
        not_applicable=na)
    with open(os.path.join(HERE, "MANIFEST.json"), "w") as fh:
        json.dump(man, fh, indent=1)
    print("MANIFEST.json:", len(checks), "checks,", len(na), "not claimed")


if __name__ == "__main__":
    main()
