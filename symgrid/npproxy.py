"""Run-time replacement of a module's global `np`: forwards to NumPy except for a short, logged list of overrides."""
from __future__ import annotations
import math, numbers
from fractions import Fraction
import numpy as _np
from . import dag
from .sym import Sym, SymBool, NaNMarker, NAN, K, PI, sym_array, node_of, HarnessError, f_and, cmp, _sb
from .angles import Ang, SymComplex, ImagAng
from .dag import NotEncodable

numbers.Real.register(Sym)

HITS = {}          # override name -> count (reported in evidence)


def _hit(name):
    HITS[name] = HITS.get(name, 0) + 1


def has_sym(x):
    if isinstance(x, (Sym, NaNMarker, Ang, SymComplex, ImagAng)):
        return True
    if isinstance(x, _np.ndarray):
        if x.dtype != object:
            return False
        return any(isinstance(v, (Sym, NaNMarker, Ang, SymComplex, ImagAng)) or (isinstance(v, _np.ndarray) and v.shape == () and isinstance(v.item(), (Sym, NaNMarker, Ang, SymComplex, ImagAng))) for v in x.flat)
    if isinstance(x, (list, tuple)):
        return any(has_sym(v) for v in x)
    return False


def lift(x):
    """object array (or scalar) in which every number is a Sym constant."""
    if isinstance(x, (Sym, NaNMarker, Ang, SymComplex, ImagAng)):
        return x
    if isinstance(x, (bool, _np.bool_)):
        return x
    if isinstance(x, (int, float, Fraction, _np.integer, _np.floating)):
        if isinstance(x, (float, _np.floating)) and math.isnan(x):
            return NAN
        return K(x)
    a = _np.asarray(x, dtype=object) if not isinstance(x, _np.ndarray) else x
    if a.dtype == bool:
        return a
    out = _np.empty(a.shape, dtype=object)
    for idx in _np.ndindex(*a.shape):
        v = a[idx]
        if isinstance(v, _np.ndarray) and v.shape == ():
            v = v.item()
        if isinstance(v, (Sym, NaNMarker, Ang, SymComplex, ImagAng)):
            out[idx] = v
        elif isinstance(v, (float, _np.floating)) and math.isnan(v):
            out[idx] = NAN
        elif isinstance(v, (float, _np.floating)) and math.isinf(v):
            out[idx] = v
        else:
            out[idx] = K(v)
    return out


_FLOATY = (None, float, _np.float64, _np.longdouble, _np.float32, "float", "float64", "longdouble", _np.double)


def _is_floaty(dtype):
    if dtype in _FLOATY:
        return True
    try:
        return _np.issubdtype(_np.dtype(dtype), _np.floating)
    except TypeError:
        return False


def _elementwise(method):
    def f(self, x, *args, out=None, dtype=None, where=True, **kw):
        if isinstance(x, (Sym, NaNMarker, Ang, SymComplex, ImagAng)):
            return getattr(x, method)()
        if has_sym(x) or self.lift_all:
            a = lift(x)
            if isinstance(a, (Sym, Ang, SymComplex, ImagAng)):
                return getattr(a, method)()
            r = _np.empty(a.shape, dtype=object)
            for idx in _np.ndindex(*a.shape):
                r[idx] = getattr(a[idx], method)()
            return r
        return getattr(_np, method)(x, *args, dtype=dtype, **kw) if dtype is not None else getattr(_np, method)(x, *args, **kw)
    f.__name__ = method
    return f


class LinalgProxy:
    def __init__(self, parent):
        self._p = parent

    def __getattr__(self, k):
        return getattr(_np.linalg, k)

    def norm(self, x, ord=None, axis=None, keepdims=False):
        if not has_sym(x):
            return _np.linalg.norm(x, ord=ord, axis=axis, keepdims=keepdims)
        _hit("linalg.norm")
        if self._p.norm_stub is not None:
            return self._p.norm_stub(x, axis)
        a = lift(x)
        if ord not in (None, 2):
            raise NotEncodable(f"norm ord={ord}")
        s = (a * a).sum(axis=axis, keepdims=keepdims)
        if isinstance(s, _np.ndarray):
            r = _np.empty(s.shape, dtype=object)
            for idx in _np.ndindex(*s.shape):
                r[idx] = _sqrt_abs(s[idx])
            return r
        return _sqrt_abs(s)

    def det(self, m):
        if not has_sym(m):
            return _np.linalg.det(m)
        _hit("linalg.det")
        m = lift(m)
        n = m.shape[0]
        if n == 1:
            return m[0, 0]
        if n == 2:
            return m[0, 0] * m[1, 1] - m[0, 1] * m[1, 0]
        if n == 3:
            return (m[0, 0] * (m[1, 1] * m[2, 2] - m[1, 2] * m[2, 1]) - m[0, 1] * (m[1, 0] * m[2, 2] - m[1, 2] * m[2, 0])
                    + m[0, 2] * (m[1, 0] * m[2, 1] - m[1, 1] * m[2, 0]))
        raise NotEncodable("det > 3x3")


def _sqrt_abs(s):
    """sqrt of a sum of squares; sqrt(x**2) for a single component is |x|."""
    n = s.n
    if n.op == "mul" and len(n.args[0]) == 1 and n.args[0][0][1] == 2:
        return abs(Sym(n.args[0][0][0]))
    return s.sqrt()


class NPProxy:
    """stands in for the module global `np`."""

    def __init__(self, lift_all=True, norm_stub=None, load_hook=None, extra=None, int_as_object=False):
        self.int_as_object = int_as_object  # integer work arrays become object arrays (symbolic integer shapes)
        self.lift_all = lift_all          # turn float allocations / transcendental calls on concrete floats into exact Syms
        self.norm_stub = norm_stub
        self.load_hook = load_hook
        self.linalg = LinalgProxy(self)
        self.pi = PI
        self._extra = extra or {}

    def __getattr__(self, k):
        if k in self._extra:
            return self._extra[k]
        return getattr(_np, k)

    # ---- allocation
    def zeros(self, shape, dtype=None, **kw):
        if not _is_floaty(dtype) and not (self.int_as_object and dtype in (int, _np.int64)):
            return _np.zeros(shape, dtype=dtype, **kw)
        _hit("zeros")
        a = _np.empty(shape, dtype=object)
        a.fill(K(0))
        return a

    def ones(self, shape, dtype=None, **kw):
        if not _is_floaty(dtype):
            return _np.ones(shape, dtype=dtype, **kw)
        _hit("ones")
        a = _np.empty(shape, dtype=object)
        a.fill(K(1))
        return a

    def empty(self, shape, dtype=None, **kw):
        if not _is_floaty(dtype) and not (self.int_as_object and dtype in (int, _np.int64)):
            return _np.empty(shape, dtype=dtype, **kw)
        _hit("empty")
        a = _np.empty(shape, dtype=object)
        a.fill(K(0))
        return a

    def full(self, shape, fill_value, dtype=None, **kw):
        if not _is_floaty(dtype) and not has_sym(fill_value):
            return _np.full(shape, fill_value, dtype=dtype, **kw)
        _hit("full")
        a = _np.empty(shape, dtype=object)
        a.fill(lift(fill_value))
        return a

    def zeros_like(self, a, dtype=None, **kw):
        if has_sym(a) or (isinstance(a, _np.ndarray) and a.dtype == object) or (dtype is None and _np.asarray(a).dtype.kind == "f"):
            return self.zeros(_np.shape(a))
        return _np.zeros_like(a, dtype=dtype, **kw)

    def ones_like(self, a, dtype=None, **kw):
        if has_sym(a) or (isinstance(a, _np.ndarray) and a.dtype == object) or (dtype is None and _np.asarray(a).dtype.kind == "f"):
            return self.ones(_np.shape(a))
        return _np.ones_like(a, dtype=dtype, **kw)

    def empty_like(self, a, dtype=None, **kw):
        return self.zeros_like(a, dtype=dtype, **kw)

    def array(self, x, dtype=None, copy=True, **kw):
        if has_sym(x):
            _hit("array")
            if dtype in (int, _np.int64, "int"):
                a = _np.array(x, dtype=object)
                out = _np.empty(a.shape, dtype=int)
                for idx in _np.ndindex(*a.shape):
                    out[idx] = int(a[idx])           # symbolic integers are concretised (one path per feasible value)
                return out
            if dtype is not None and not _is_floaty(dtype) and dtype is not object:
                raise NotEncodable(f"np.array(symbolic, dtype={dtype})")
            a = _np.array(x, dtype=object, copy=True)
            return lift(a) if isinstance(a, _np.ndarray) and a.shape != () else a
        return _np.array(x, dtype=dtype, copy=copy, **kw)

    def asarray(self, x, dtype=None, **kw):
        if has_sym(x):
            _hit("asarray")
            if dtype is not None and not _is_floaty(dtype) and dtype is not object:
                raise NotEncodable(f"np.asarray(symbolic, dtype={dtype})")
            if isinstance(x, _np.ndarray):
                return x
            return lift(_np.array(x, dtype=object))
        return _np.asarray(x, dtype=dtype, **kw)

    def atleast_1d(self, x):
        if isinstance(x, (Sym, NaNMarker)):
            a = _np.empty(1, dtype=object)
            a[0] = x
            return a
        return _np.atleast_1d(x)

    def load(self, *a, **kw):
        r = _np.load(*a, **kw)
        if self.load_hook is not None:
            _hit("load")
            return self.load_hook(r, *a)
        return r

    # ---- transcendental functions
    exp = _elementwise("exp")
    log = _elementwise("log")
    sinh = _elementwise("sinh")
    cosh = _elementwise("cosh")
    tanh = _elementwise("tanh")
    arcsinh = _elementwise("arcsinh")
    arctan = _elementwise("arctan")
    arcsin = _elementwise("arcsin")
    sin = _elementwise("sin")
    cos = _elementwise("cos")
    tan = _elementwise("tan")
    sqrt = _elementwise("sqrt")
    arccos = _elementwise("arccos")
    floor = _elementwise("floor")
    ceil = _elementwise("ceil")
    rint = _elementwise("rint")

    def real(self, x):
        if has_sym(x):
            a = _np.asarray(x, dtype=object)
            return a.real if a.shape != () else a.item().real
        return _np.real(x)

    def imag(self, x):
        if has_sym(x):
            a = _np.asarray(x, dtype=object)
            return a.imag if a.shape != () else a.item().imag
        return _np.imag(x)

    def arctan2(self, y, x):
        if has_sym(y) or has_sym(x) or self.lift_all:
            y, x = _np.broadcast_arrays(lift(_np.asarray(y, dtype=object)), lift(_np.asarray(x, dtype=object)))
            r = _np.empty(y.shape, dtype=object)
            for idx in _np.ndindex(*y.shape):
                r[idx] = y[idx].arctan2(x[idx])
            return r if r.shape != () else r.item()
        return _np.arctan2(y, x)

    def power(self, a, b, **kw):
        if has_sym(a) or has_sym(b):
            return lift(a) ** b
        return _np.power(a, b, **kw)

    # ---- predicates that NumPy does not define for object arrays
    def _pred(self, x, fsym, fnan, native):
        if not (has_sym(x) or (isinstance(x, _np.ndarray) and x.dtype == object)):
            return native(x)
        if isinstance(x, Sym):
            return fsym
        if isinstance(x, NaNMarker):
            return fnan
        x = _np.asarray(x, dtype=object)
        r = _np.empty(x.shape, dtype=bool)
        for idx in _np.ndindex(*x.shape):
            v = x[idx]
            if isinstance(v, NaNMarker):
                r[idx] = fnan
            elif isinstance(v, Sym):
                r[idx] = fsym
            else:
                r[idx] = native(v)
        return r

    def isnan(self, x):
        _hit("isnan")
        return self._pred(x, False, True, _np.isnan)

    def isinf(self, x):
        _hit("isinf")
        return self._pred(x, False, False, _np.isinf)

    def isfinite(self, x):
        _hit("isfinite")
        return self._pred(x, True, False, _np.isfinite)

    def nan_to_num(self, x, copy=True, nan=0.0, posinf=None, neginf=None):
        if not (isinstance(x, _np.ndarray) and x.dtype == object):
            return _np.nan_to_num(x, copy=copy, nan=nan, posinf=posinf, neginf=neginf)
        _hit("nan_to_num")
        r = x.copy() if copy else x
        for idx in _np.ndindex(*r.shape):
            if isinstance(r[idx], NaNMarker):
                r[idx] = K(nan)
        return r

    def abs(self, x, **kw):
        if has_sym(x):
            if isinstance(x, Sym):
                return abs(x)
            x = _np.asarray(x, dtype=object)
            r = _np.empty(x.shape, dtype=object)
            for idx in _np.ndindex(*x.shape):
                r[idx] = abs(x[idx])
            return r
        return _np.abs(x, **kw)

    fabs = abs
    absolute = abs

    def sign(self, x):
        if has_sym(x):
            _hit("sign")
            def sg(v):
                v = v if isinstance(v, Sym) else K(v)
                return K(1) if (v > 0) else (K(-1) if (v < 0) else K(0))
            if isinstance(x, Sym):
                return sg(x)
            r = _np.empty(x.shape, dtype=object)
            for idx in _np.ndindex(*x.shape):
                r[idx] = sg(x[idx])
            return r
        return _np.sign(x)

    def isclose(self, a, b, rtol=1e-05, atol=1e-08, equal_nan=False):
        if has_sym(a) or has_sym(b):
            _hit("isclose")
            a, b = _np.broadcast_arrays(lift(_np.asarray(a, dtype=object)), lift(_np.asarray(b, dtype=object)))
            r = _np.empty(a.shape, dtype=bool)
            for idx in _np.ndindex(*a.shape):
                r[idx] = bool(abs(a[idx] - b[idx]) <= atol + rtol * abs(b[idx]))
            return r if r.shape != () else bool(r)
        return _np.isclose(a, b, rtol=rtol, atol=atol, equal_nan=equal_nan)

    def allclose(self, a, b, rtol=1e-05, atol=1e-08, equal_nan=False):
        return bool(_np.all(self.isclose(a, b, rtol, atol, equal_nan)))

    def divide(self, a, b, out=None, where=True, **kw):
        if has_sym(a) or has_sym(b) or (out is not None and out.dtype == object):
            a, b = _np.broadcast_arrays(lift(_np.asarray(a, dtype=object)), lift(_np.asarray(b, dtype=object)))
            w = _np.broadcast_to(where, a.shape)
            r = out if out is not None else _np.empty(a.shape, dtype=object)
            for idx in _np.ndindex(*a.shape):
                if w[idx]:
                    r[idx] = a[idx] / b[idx]
            return r
        return _np.divide(a, b, out=out, where=where, **kw)

    def einsum(self, subs, *ops, **kw):
        if any(has_sym(o) for o in ops):
            ops = [lift(_np.asarray(o, dtype=object)) if not (isinstance(o, _np.ndarray) and o.dtype == object) else o for o in ops]
            kw.pop("optimize", None)
            return _np.einsum(subs, *ops, **kw)
        return _np.einsum(subs, *ops, **kw)


def install(module, **kw):
    """replace `np` in `module` (a module object) by a proxy; returns the proxy."""
    p = NPProxy(**kw)
    module.np = p
    return p
