"""Encoder normalisation: expand a DAG node into a canonical sparse rational function over its atoms.

Ring axioms only, exact coefficients (Fraction or multiquadratic QS).  Relations between atoms that are
applied as rewrite rules (each is a polynomial identity of the atoms' definitions):
   root(a,m)**m -> a  (polynomial a),   s**2 -> 1 - c**2 for registered unit-circle pairs,
   sinh(t)**2 -> cosh(t)**2 - 1.
A numerator that cancels to the zero polynomial proves the identity wherever the expression is defined.
"""
from __future__ import annotations
from fractions import Fraction
from . import dag
from .dag import cadd, cmul, cis0, cneg, cinv, QS

MAX_TERMS = 400000


POW_TABLES = {}      # atom id -> (e -> fully reduced Poly of atom**e)


class TooBig(Exception):
    pass


ATOMS = {}          # id -> node
RULES = {}          # atom id -> (m, Poly)   atom**m -> Poly
CIRCLE = {}         # sin-atom id -> cos-atom id


def reset():
    ATOMS.clear()
    RULES.clear()
    CIRCLE.clear()
    RAT_RULES.clear()
    _MEMO.clear()


def register_circle(c_node, s_node):
    CIRCLE[s_node.id] = c_node.id
    ATOMS[c_node.id] = c_node
    ATOMS[s_node.id] = s_node
    RULES[s_node.id] = (2, Poly({(): Fraction(1), ((c_node.id, 2),): Fraction(-1)}))
    _MEMO.clear()


class Poly:
    __slots__ = ("t",)

    def __init__(self, t):
        self.t = t

    @staticmethod
    def const(c):
        return Poly({} if cis0(c) else {(): c})

    @staticmethod
    def atom(n):
        ATOMS[n.id] = n
        return Poly({((n.id, 1),): Fraction(1)})

    def is_zero(self):
        return not self.t

    def is_const(self):
        return all(m == () for m in self.t)

    def __add__(a, b):
        if len(a.t) < len(b.t):
            a, b = b, a
        t = dict(a.t)
        for m, c in b.t.items():
            if m in t:
                s = cadd(t[m], c)
                if cis0(s):
                    del t[m]
                else:
                    t[m] = s
            else:
                t[m] = c
        return Poly(t)

    def scale(a, c):
        if cis0(c):
            return Poly({})
        if dag.cis1(c):
            return a
        return Poly({m: cmul(c, k) for m, k in a.t.items()})

    def __neg__(a):
        return Poly({m: cneg(c) for m, c in a.t.items()})

    def __sub__(a, b):
        return a + (-b)

    def __mul__(a, b):
        if not a.t or not b.t:
            return Poly({})
        if len(a.t) * len(b.t) > MAX_TERMS * 4:
            raise TooBig()
        t = {}
        need_reduce = False
        for m1, c1 in a.t.items():
            for m2, c2 in b.t.items():
                if not m1:
                    m = m2
                elif not m2:
                    m = m1
                else:
                    d = dict(m1)
                    for v, e in m2:
                        d[v] = d.get(v, 0) + e
                    m = tuple(sorted(d.items()))
                    if RULES:
                        for v, e in m:
                            r = RULES.get(v)
                            if r is not None and e >= r[0]:
                                need_reduce = True
                c = cmul(c1, c2)
                if m in t:
                    s = cadd(t[m], c)
                    if cis0(s):
                        del t[m]
                    else:
                        t[m] = s
                else:
                    t[m] = c
        if len(t) > MAX_TERMS:
            raise TooBig()
        r = Poly(t)
        return r.reduce() if need_reduce else r

    def reduce(self):
        """apply atom**m -> Poly rules until no monomial contains a reducible power."""
        out = Poly({})
        work = [self]
        for _ in range(10000):
            if not work:
                return out
            p = work.pop()
            clean = {}
            for m, c in p.t.items():
                hit = None
                for v, e in m:
                    r = RULES.get(v)
                    if r is not None and e >= r[0]:
                        hit = (v, e, r)
                        break
                if hit is None:
                    if m in clean:
                        s = cadd(clean[m], c)
                        if cis0(s):
                            del clean[m]
                        else:
                            clean[m] = s
                    else:
                        clean[m] = c
                else:
                    v, e, (mm, rep) = hit
                    tab = POW_TABLES.get(v)
                    if tab is not None:
                        # fully reduced power from a table (cyclotomic field: z**e mod Phi computed by polynomial division)
                        rest = tuple((w, f) for w, f in m if w != v)
                        RULES_save = RULES.pop(v)
                        try:
                            work.append(Poly({tuple(sorted(rest)): c}) * tab(e))
                        finally:
                            RULES[v] = RULES_save
                        continue
                    q, rem = divmod(e, mm)
                    rest = tuple((w, f) for w, f in m if w != v) + (((v, rem),) if rem else ())
                    base = Poly({tuple(sorted(rest)): c})
                    RULES_save = RULES.pop(v)     # avoid recursion on the same rule while multiplying
                    try:
                        rp = rep
                        acc = base
                        for _ in range(q):
                            acc = acc * rp
                    finally:
                        RULES[v] = RULES_save
                    work.append(acc)
            out = out + Poly(clean)
        raise TooBig()

    def __pow__(a, k):
        r = Poly.const(Fraction(1))
        base = a
        while k:
            if k & 1:
                r = r * base
            k >>= 1
            if k:
                base = base * base
        return r

    def key(self):
        return tuple(sorted(self.t.items(), key=lambda mc: mc[0]))

    def lead(self):
        m = max(self.t)
        return self.t[m]


ONE = Poly.const(Fraction(1))


class Rat:
    """num / prod(den_i ** e_i) with polynomial factors kept apart."""
    __slots__ = ("num", "den")

    def __init__(self, num, den=None):
        self.num, self.den = num, den or {}


def _den_factor(p: Poly):
    """normalise a denominator factor: (unit constant c, monic-ish poly q) with p = c*q."""
    if p.is_const():
        return p.t.get((), Fraction(0)), None
    lc = p.lead()
    try:
        inv = cinv(lc)
    except ZeroDivisionError:
        return Fraction(1), p
    return lc, p.scale(inv)


def _den_poly(den):
    r = ONE
    for k, (p, e) in den.items():
        r = r * (p ** e)
    return r


def _add_rat(items):
    """items: list of (coeff, Rat) -> Rat"""
    lcm = {}
    for _, r in items:
        for k, (p, e) in r.den.items():
            if k not in lcm or lcm[k][1] < e:
                lcm[k] = (p, e)
    num = Poly({})
    for c, r in items:
        t = r.num.scale(c)
        for k, (p, e) in lcm.items():
            have = r.den.get(k, (None, 0))[1]
            if e > have:
                t = t * (p ** (e - have))
        num = num + t
    return Rat(num, lcm)


_MEMO = {}


def ratpoly(n) -> Rat:
    r = _MEMO.get(n.id)
    if r is not None:
        return r
    op = n.op
    if op == "const":
        r = Rat(Poly.const(dag.cval(n)))
    elif op == "add":
        c0, terms = n.args
        items = [(c, ratpoly(t)) for t, c in terms]
        if not cis0(c0):
            items.append((c0, Rat(ONE)))
        r = _add_rat(items)
    elif op == "mul":
        num, den = ONE, {}
        for b, e in n.args[0]:
            rb = ratpoly(b)
            if e > 0:
                num = num * (rb.num ** e)
                for k, (p, f) in rb.den.items():
                    den[k] = (p, den.get(k, (p, 0))[1] + f * e)
            else:
                e = -e
                for k, (p, f) in rb.den.items():
                    num = num * (p ** (f * e))
                c, q = _den_factor(rb.num)
                if cis0(c) and q is None:
                    raise ZeroDivisionError("denominator normalises to 0")
                if not dag.cis1(c):
                    try:
                        num = num.scale(dag._cpow(cinv(c), e))
                    except ZeroDivisionError:
                        q = rb.num if q is None else q.scale(c)
                if q is not None:
                    k = q.key()
                    den[k] = (q, den.get(k, (q, 0))[1] + e)
        r = Rat(num, den)
    elif op == "root":
        a, m = n.args
        if n.id not in RULES:
            ra = ratpoly(a)
            if not ra.den:
                RULES[n.id] = (m, ra.num)
        r = Rat(Poly.atom(n))
    elif op == "fn" and n.args[0] == "sinh":
        ch = dag.fn("cosh", n.args[1])
        if n.id not in RULES and ch.op == "fn":
            ATOMS[ch.id] = ch
            RULES[n.id] = (2, Poly({((ch.id, 2),): Fraction(1), (): Fraction(-1)}))
        r = Rat(Poly.atom(n))
    else:
        r = Rat(Poly.atom(n))
    _MEMO[n.id] = r
    return r


RAT_RULES = {}      # root-atom id -> (m, N, D): atom**m == N/D with polynomial N, D (D != 0 where defined)


def _rat_rule(v):
    r = RAT_RULES.get(v)
    if r is None and v in ATOMS and ATOMS[v].op == "root" and v not in RULES:
        a, m = ATOMS[v].args
        ra = ratpoly(a)
        r = (m, ra.num, _den_poly(ra.den))
        RAT_RULES[v] = r
    return r


def reduce_roots(num: Poly) -> Poly:
    """eliminate powers >= m of root atoms with rational radicands: multiplies the numerator by a power of the
    radicand's denominator (non-zero where the expression is defined), so zero-ness is preserved."""
    for _ in range(50):
        target = None
        for mono in num.t:
            for v, e in mono:
                if v in ATOMS and ATOMS[v].op == "root" and v not in RULES:
                    rr = _rat_rule(v)
                    if rr is not None and e >= rr[0]:
                        target = v
                        break
            if target is not None:
                break
        if target is None:
            return num
        m, Np, Dp = RAT_RULES[target]
        qmax = max((dict(mono).get(target, 0) // m) for mono in num.t)
        powsN, powsD = [ONE], [ONE]
        for _ in range(qmax):
            powsN.append(powsN[-1] * Np)
            powsD.append(powsD[-1] * Dp)
        out = Poly({})
        for mono, c in num.t.items():
            d = dict(mono)
            e = d.pop(target, 0)
            q, rem = divmod(e, m)
            if rem:
                d[target] = rem
            base = Poly({tuple(sorted(d.items())): c})
            out = out + base * powsN[q] * powsD[qmax - q]
        num = out
    raise TooBig()


def eliminate_cospi(num: Poly) -> Poly:
    """exact arithmetic with cos(k pi/M): cos = (z**k + z**(2M-k))/2 with z a primitive 2M-th root of unity, polynomials in z
    reduced modulo the cyclotomic polynomial Phi_2M (canonical form in Q(z)); a zero result proves the identity."""
    import math
    dens = set()
    for mono in num.t:
        for v, e in mono:
            if v in ATOMS and ATOMS[v].op == "cospi":
                dens.add(ATOMS[v].args[0].denominator)
    if not dens:
        return num
    M = 1
    for d in dens:
        M = M * d // math.gcd(M, d)
    if M > 200:
        raise TooBig()
    zeta = dag.mk("zeta", 2 * M)
    ATOMS[zeta.id] = zeta
    if zeta.id not in RULES:
        import sympy
        x = sympy.Symbol("x")
        coeffs = [Fraction(int(c)) for c in sympy.Poly(sympy.cyclotomic_poly(2 * M, x), x).all_coeffs()]    # monic, highest first
        deg = len(coeffs) - 1
        rep = {}
        for i, c in enumerate(coeffs[1:], 1):
            pw = deg - i
            if c != 0:
                rep[((zeta.id, pw),) if pw else ()] = -c
        RULES[zeta.id] = (deg, Poly(rep))
    zpow = {}
    zdeg = RULES[zeta.id][0]

    def zp(k):
        k %= 2 * M
        if k not in zpow:
            if k < zdeg:
                zpow[k] = Poly({((zeta.id, k),) if k else (): Fraction(1)})
            else:
                # z**k mod Phi_2M by polynomial division (repeated rule application explodes for prime M >= 17)
                import sympy
                x = sympy.Symbol("x")
                r = sympy.Poly(sympy.rem(x ** k, sympy.cyclotomic_poly(2 * M, x), x), x)
                zpow[k] = Poly({(((zeta.id, int(mon[0])),) if mon[0] else ()): Fraction(int(co)) for mon, co in r.terms() if co != 0})
        return zpow[k]
    POW_TABLES[zeta.id] = zp
    cosp = {}
    out = Poly({})

    def sqrt_in_field(f):
        """sqrt(f) as a polynomial in z when it lies in Q(z) (sqrt2 = 2cos(pi/4), sqrt3 = 2cos(pi/6)), else None"""
        if f == 2 and M % 4 == 0:
            return zp(M // 4) + zp(2 * M - M // 4)
        if f == 3 and M % 6 == 0:
            return zp(M // 6) + zp(2 * M - M // 6)
        if f == 6 and M % 12 == 0:
            return (zp(M // 4) + zp(2 * M - M // 4)) * (zp(M // 6) + zp(2 * M - M // 6))
        return None

    def coeff_poly(c):
        if not isinstance(c, QS):
            return Poly({(): c})
        r = Poly({})
        for (f, e), v in c.t.items():
            sp = sqrt_in_field(f) if f != 1 else None
            if sp is None:
                r = r + Poly({(): QS({(f, e): v}) if (f, e) != (1, 0) else v})
            else:
                r = r + sp.scale(QS({(1, e): v}) if e != 0 else v)
        return r
    for mono, c in num.t.items():
        rest = tuple((v, e) for v, e in mono if not (v in ATOMS and ATOMS[v].op == "cospi"))
        term = Poly({rest: Fraction(1)}) * coeff_poly(c)
        for v, e in mono:
            if v in ATOMS and ATOMS[v].op == "cospi":
                q = ATOMS[v].args[0]
                k = q.numerator * (M // q.denominator)
                if k not in cosp:
                    cosp[k] = (zp(k) + zp(2 * M - k)).scale(Fraction(1, 2))
                for _ in range(e):
                    term = term * cosp[k]
        out = out + term
    return out


def numerator(n) -> Poly:
    return reduce_roots(ratpoly(n).num)


def is_zero_poly(num: Poly) -> bool:
    if num.is_zero():
        return True
    try:
        return eliminate_cospi(num).is_zero()
    except TooBig:
        return False


def is_zero(n) -> bool:
    """True if n normalises to the zero rational function (False = not shown, not necessarily non-zero)."""
    try:
        return is_zero_poly(numerator(n))
    except (TooBig, ZeroDivisionError):
        return False


def poly_to_node(p: Poly):
    """back to a DAG node (used to hand a normalised residual to the solver)."""
    terms = []
    for m, c in p.t.items():
        t = dag.const(c)
        for v, e in m:
            t = dag.mul(t, dag.powi(ATOMS[v], e))
        terms.append(t)
    return dag.addn(terms)
