"""Angles as points (cos, sin) of the unit circle: every direction, poles and angles outside the principal range included."""
from __future__ import annotations
from fractions import Fraction
import numpy as np
from . import dag, poly
from .sym import Sym, K, real, Engine, NaNMarker, NAN, node_of, f_and, f_or, cmp, NotEncodable


class Ang:
    __slots__ = ("c", "s", "rng")

    def __init__(self, c, s, rng=None):
        # rng: optional open interval (lo, hi) in which the harness declares the real representative of the angle to lie
        # (needed only by code that compares an angle with a constant, e.g. `phi < 0`); arithmetic results carry no range
        self.c, self.s, self.rng = c, s, rng

    def __repr__(self):
        return f"Ang<cos={self.c!r}, sin={self.s!r}>"

    # ---- constructors
    @staticmethod
    def free(name, engine=None):
        """an arbitrary angle: variables (c, s) with c^2 + s^2 = 1 (assumed in the engine, reduced s^2 -> 1 - c^2 in the normaliser)."""
        c, s = real(f"cos_{name}"), real(f"sin_{name}")
        poly.register_circle(c.n, s.n)
        e = engine or Engine.cur
        if e is not None:
            e.assume(c * c + s * s == 1)
        return Ang(c, s)

    @staticmethod
    def from_cos(u):
        """arccos(u): the angle in [0, pi] with cosine u."""
        if isinstance(u, NaNMarker):
            return NAN
        u = u if isinstance(u, Sym) else K(u)
        import math
        if u.n.op == "const":
            sg = (1 - u * u)
            return Ang(u, sg.sqrt(), (0.0, math.pi))
        return Ang(u, (1 - u * u).sqrt(), (0.0, math.pi))

    @staticmethod
    def from_xy(x, y):
        """arctan2(y, x); arctan2(0, 0) = 0 as in NumPy."""
        x = x if isinstance(x, Sym) else K(x)
        y = y if isinstance(y, Sym) else K(y)
        rho2 = x * x + y * y
        if rho2 == 0:          # forks when symbolic
            return Ang(K(1), K(0))
        rho = rho2.sqrt()
        return Ang(x / rho, y / rho)

    # ---- arithmetic
    def _mult(self, k):
        k = int(k)
        if k == 0:
            return Ang(K(1), K(0))
        if k < 0:
            a = self._mult(-k)
            return Ang(a.c, -a.s)
        c0, s0, c1, s1 = K(1), K(0), self.c, self.s
        for _ in range(k - 1):
            c0, s0, c1, s1 = c1, s1, 2 * self.c * c1 - c0, 2 * self.c * s1 - s0
        return Ang(c1, s1)

    def _as_int(self, o):
        if isinstance(o, Sym):
            if o.n.op == "const" and not isinstance(dag.cval(o.n), dag.QS) and dag.cval(o.n).denominator == 1:
                return int(dag.cval(o.n))
            raise NotEncodable("angle multiplied by a non-integer")
        if isinstance(o, (int, np.integer)):
            return int(o)
        if isinstance(o, (float, np.floating)) and float(o).is_integer():
            return int(o)
        raise NotEncodable(f"angle multiplied by {o!r}")

    def __mul__(self, o):
        if isinstance(o, np.ndarray):
            return NotImplemented
        return self._mult(self._as_int(o))

    __rmul__ = __mul__

    def __neg__(self):
        return Ang(self.c, -self.s)

    def __add__(self, o):
        if isinstance(o, np.ndarray):
            return NotImplemented
        if isinstance(o, Ang):
            return Ang(self.c * o.c - self.s * o.s, self.s * o.c + self.c * o.s)
        if isinstance(o, (int, float)) and o == 0:
            return self
        q = _pi_multiple_of(o)
        if q is not None and q.denominator <= 2:
            # angle + k*pi/2: exact rotation
            k = int(q * 2) % 4
            c, s_ = self.c, self.s
            for _ in range(k):
                c, s_ = -s_, c
            return Ang(c, s_)
        raise NotEncodable("angle plus a non-angle")

    __radd__ = __add__

    def __sub__(self, o):
        return self + (-o)

    def cos(self):
        return self.c

    def sin(self):
        return self.s

    def tan(self):
        return self.s / self.c

    def conjugate(self):
        return self

    def _cmp(self, o):
        raise NotEncodable("ordering comparison of angles")

    def _const(self, o):
        import mpmath
        try:
            n = node_of(o if isinstance(o, Sym) else K(o))
            if dag.has_free(n):
                return None
            return float(dag.evalf(n, {}, mpmath.mp))
        except Exception:
            return None

    def __lt__(self, o):
        v = self._const(o)
        if self.rng is not None and v is not None:
            if self.rng[1] <= v:
                return True
            if self.rng[0] >= v:
                return False
        raise NotEncodable("ordering comparison of an angle whose range is not declared")

    def __gt__(self, o):
        v = self._const(o)
        if self.rng is not None and v is not None:
            if self.rng[0] >= v:
                return True
            if self.rng[1] <= v:
                return False
        raise NotEncodable("ordering comparison of an angle whose range is not declared")

    def __abs__(self):
        """|phi| for a polar angle in [0, pi] is phi itself; only used in `np.abs(phi) < eps` tests"""
        return AbsAng(self)

    __hash__ = None


def _pi_multiple_of(o):
    """q if o == q*pi exactly (Sym constant or float), else None"""
    try:
        if isinstance(o, Sym):
            c = dag.cval(o.n) if o.n.op == "const" else None
            if isinstance(c, dag.QS) and list(c.t) == [(1, -2)]:
                return Fraction(c.t[(1, -2)])
            return None
        if isinstance(o, (float, np.floating)):
            import math
            q = Fraction(float(o) / math.pi).limit_denominator(4)
            return q if abs(float(q) * math.pi - float(o)) < 1e-15 * max(1.0, abs(float(o))) and q != 0 else None
    except Exception:
        return None
    return None


class AbsAng:
    """|angle| - supports only the comparison `|phi| < eps` used for pole detection (true iff the angle is 0 mod 2 pi up to eps)."""
    def __init__(self, a):
        self.a = a

    def __lt__(self, eps):
        # |phi| < eps  <=>  cos(phi) > cos(eps)  for phi in (-pi, pi]
        import math
        return self.a.c > K(math.cos(float(eps)))


class SymComplex:
    """complex number with symbolic real / imaginary parts (only what the harmonics code needs)"""
    __slots__ = ("re", "im")

    def __init__(self, re, im):
        self.re = re if isinstance(re, Sym) else K(re)
        self.im = im if isinstance(im, Sym) else K(im)

    @property
    def real(self):
        return self.re

    @property
    def imag(self):
        return self.im

    def conjugate(self):
        return SymComplex(self.re, -self.im)

    def _co(self, o):
        if isinstance(o, SymComplex):
            return o
        if isinstance(o, complex):
            return SymComplex(K(o.real), K(o.imag))
        if isinstance(o, np.ndarray):
            return None
        return SymComplex(o if isinstance(o, Sym) else K(o), K(0))

    def __add__(self, o):
        o = self._co(o)
        return NotImplemented if o is None else SymComplex(self.re + o.re, self.im + o.im)

    __radd__ = __add__

    def __sub__(self, o):
        o = self._co(o)
        return NotImplemented if o is None else SymComplex(self.re - o.re, self.im - o.im)

    def __neg__(self):
        return SymComplex(-self.re, -self.im)

    def __mul__(self, o):
        o = self._co(o)
        return NotImplemented if o is None else SymComplex(self.re * o.re - self.im * o.im, self.re * o.im + self.im * o.re)

    __rmul__ = __mul__

    def __truediv__(self, o):
        if isinstance(o, (SymComplex, complex, np.ndarray)):
            return NotImplemented
        o = o if isinstance(o, Sym) else K(o)
        return SymComplex(self.re / o, self.im / o)

    __hash__ = None

    def __repr__(self):
        return f"SymComplex({self.re!r}, {self.im!r})"


class ImagAng:
    """i * k * angle  (argument of a complex exponential)"""
    def __init__(self, ang, k=1):
        self.ang, self.k = ang, k

    def __neg__(self):
        return ImagAng(self.ang, -self.k)

    def __mul__(self, o):
        return ImagAng(self.ang, self.k * int(o))

    __rmul__ = __mul__

    def exp(self):
        a = self.ang._mult(self.k)
        return SymComplex(a.c, a.s)


def _ang_mul(self, o):
    if isinstance(o, np.ndarray):
        return NotImplemented
    if isinstance(o, complex):
        if o.real != 0 or not float(o.imag).is_integer():
            raise NotEncodable("angle times a general complex number")
        return ImagAng(self, int(o.imag))
    return self._mult(self._as_int(o))


Ang.__mul__ = _ang_mul
Ang.__rmul__ = _ang_mul
