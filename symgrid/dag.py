"""Hash-consed expression DAG over the reals with exact constants.

Canonical shapes (ring/field axioms only, applied at construction):
  const(c)                       c: Fraction | QS (multiquadratic, powers of pi^(1/2))
  var(name, kind)                kind 'R' | 'I'
  add(c0, ((term, coeff), ...))  flattened linear combination, >= 1 term, never a bare coeff-1 single term with c0 == 0
  mul(((base, exp), ...))        flattened product, integer exponents != 0, no constant factor
  fn(name, arg)                  exp log sin cos sinh cosh tanh arcsinh erf
  root(arg, m)                   principal m-th root (arg >= 0), sqrt = root(.,2)
  powr(a, b)                     a ** b, a > 0, b not a constant integer / unit fraction
  uf(name, args, dmulti)         uninterpreted smooth function and its partial derivatives
  cospi(q)                       cos(pi*q), 0 < q < 1/2, q rational (closed algebraic constant)
"""
from __future__ import annotations
import math
from fractions import Fraction
from .consts import QS

_TABLE = {}
_BYID = []
REWRITES = set()          # names of function-level rewrites that fired (reported in evidence)
SNAPPED = {}              # float repr -> snapped Fraction


class N:
    __slots__ = ("op", "args", "id")

    def __repr__(self):
        return show(self, 6)


def _k(a):
    if isinstance(a, N):
        return ("#", a.id)
    if isinstance(a, tuple):
        return tuple(_k(x) for x in a)
    return a


def mk(op, *args):
    key = (op,) + tuple(_k(a) for a in args)
    n = _TABLE.get(key)
    if n is None:
        n = N()
        n.op, n.args, n.id = op, args, len(_BYID)
        _TABLE[key] = n
        _BYID.append(n)
    return n


def reset():
    _TABLE.clear()
    _BYID.clear()
    global ZERO, ONE
    ZERO, ONE = const(0), const(1)


# ----------------------------------------------------------------------------- constants
def _norm_c(c):
    if isinstance(c, QS):
        return c.as_rat() if c.is_rat() else c
    return c


def cadd(a, b):
    if isinstance(a, QS) or isinstance(b, QS):
        return _norm_c(_q(a) + _q(b))
    return a + b


def cmul(a, b):
    if isinstance(a, QS) or isinstance(b, QS):
        return _norm_c(_q(a) * _q(b))
    return a * b


def cinv(a):
    if isinstance(a, QS):
        return _norm_c(a.inv())      # ZeroDivisionError for non-monomials
    return 1 / a


def cneg(a):
    return _norm_c(-a) if isinstance(a, QS) else -a


def cis0(a):
    return (not a.t) if isinstance(a, QS) else a == 0


def cis1(a):
    return (not isinstance(a, QS)) and a == 1


def _q(c):
    return c if isinstance(c, QS) else QS.rat(c)


def cfloat(c, mp=None):
    """numeric value of a constant (python float or mpmath)."""
    import mpmath
    m = mp or mpmath.mp
    if isinstance(c, QS):
        r = m.mpf(0)
        for (f, e), v in c.t.items():
            r += m.mpf(v.numerator) / m.mpf(v.denominator) * m.sqrt(m.mpf(f)) * (1 / m.sqrt(m.pi)) ** e
        return r
    return m.mpf(c.numerator) / m.mpf(c.denominator)


def snap(v: float) -> Fraction:
    """exact rational meant by a Python float: the float itself unless a simple rational lies within 4 ulp."""
    fr = Fraction(v)
    if fr.denominator == 1:
        return fr
    # a difference of O(1) floats computed natively before the engine saw it (e.g. -1 + 2k/(n-1)) carries the absolute error of its operands:
    # a rational with a small denominator within 4 ulp of 1 is accepted first (recorded like every snap in the evidence)
    cand = fr.limit_denominator(2000)
    if cand != fr and abs(fr) < 4 and abs(cand - fr) <= Fraction(4, 2 ** 52):
        SNAPPED[repr(v)] = cand
        return cand
    tol = 4 * abs(fr) * Fraction(1, 2 ** 52)
    for cand in (fr.limit_denominator(10 ** 6), Fraction(repr(v))):
        if cand != fr and abs(cand - fr) <= tol:
            SNAPPED[repr(v)] = cand
            return cand
    return fr


PI_Q = QS({(1, -2): Fraction(1)})     # pi = (pi^-1/2)^-2


def _snap_pi(v: float):
    """recognise q*pi and q/pi, q*sqrt(pi) ... for small rationals q (floats computed from np.pi before the proxy saw them)."""
    if v == 0 or abs(v) < 1e-8 or abs(v) > 1e8:
        return None
    for e, base in ((-2, math.pi), (2, 1 / math.pi), (-1, math.sqrt(math.pi)), (1, 1 / math.sqrt(math.pi)), (-4, math.pi ** 2)):
        q = Fraction(v / base).limit_denominator(5000)
        if q != 0 and q.denominator <= 720 and abs(float(q) * base - v) <= 8 * abs(v) * 2 ** -52 and abs(q.numerator) <= 5000:
            # make sure v is not itself a simple rational
            fr = Fraction(v)
            if fr.limit_denominator(10 ** 6) == fr:
                return None
            return QS({(1, e): q})
    return None


def const(v):
    if isinstance(v, N):
        return v
    if isinstance(v, QS):
        return mk("const", _norm_c(v))
    if isinstance(v, bool):
        v = int(v)
    if isinstance(v, int):
        return mk("const", Fraction(v))
    if isinstance(v, Fraction):
        return mk("const", v)
    try:
        import numpy as np
        if isinstance(v, np.bool_):
            return mk("const", Fraction(int(v)))
        if isinstance(v, np.integer):
            return mk("const", Fraction(int(v)))
        if isinstance(v, np.floating):
            v = float(v)
    except ImportError:
        pass
    if isinstance(v, float):
        if math.isinf(v) or math.isnan(v):
            raise NotEncodable(f"non-finite constant {v}")
        p = _snap_pi(v)
        if p is not None:
            SNAPPED[repr(v)] = p
            return mk("const", p)
        return mk("const", snap(v))
    raise NotEncodable(f"cannot make a constant from {type(v)}")


class NotEncodable(Exception):
    pass


def var(name, kind="R"):
    return mk("var", name, kind)


def is_const(n):
    return n.op == "const"


def cval(n):
    return n.args[0]


ZERO, ONE = None, None
reset()


# ----------------------------------------------------------------------------- linear combinations
def _lin(n):
    """n == c0 + sum coeff*term  ->  (c0, {term: coeff})"""
    if n.op == "const":
        return cval(n), {}
    if n.op == "add":
        return n.args[0], dict(n.args[1])
    return Fraction(0), {n: Fraction(1)}


def _mk_add(c0, terms):
    terms = {t: c for t, c in terms.items() if not cis0(c)}
    if not terms:
        return const(c0)
    if len(terms) == 1 and cis0(c0):
        (t, c), = terms.items()
        if cis1(c):
            return t
    return mk("add", c0, tuple(sorted(terms.items(), key=lambda tc: tc[0].id)))


def add(a, b):
    ca, ta = _lin(a)
    cb, tb = _lin(b)
    if not ta and not tb:
        return const(cadd(ca, cb))
    for t, c in tb.items():
        ta[t] = cadd(ta[t], c) if t in ta else c
    return _mk_add(cadd(ca, cb), ta)


def scale(c, a):
    if cis1(c):
        return a
    if cis0(c):
        return ZERO
    ca, ta = _lin(a)
    return _mk_add(cmul(c, ca), {t: cmul(c, k) for t, k in ta.items()})


def neg(a):
    return scale(Fraction(-1), a)


def sub(a, b):
    return add(a, neg(b))


def addn(items):
    c0, terms = Fraction(0), {}
    for a in items:
        ca, ta = _lin(a)
        c0 = cadd(c0, ca)
        for t, c in ta.items():
            terms[t] = cadd(terms[t], c) if t in terms else c
    return _mk_add(c0, terms)


# ----------------------------------------------------------------------------- products
def _fac(n):
    """n == coeff * prod base**exp -> (coeff, {base: exp})"""
    if n.op == "const":
        return cval(n), {}
    if n.op == "add":
        c0, terms = n.args
        if cis0(c0) and len(terms) == 1:
            (t, c), = terms
            k, f = _fac(t)
            return cmul(c, k), f
        return Fraction(1), {n: 1}
    if n.op == "mul":
        return Fraction(1), dict(n.args[0])
    return Fraction(1), {n: 1}


def _mk_mul(c, f):
    f = {b: e for b, e in f.items() if e != 0}
    if cis0(c):
        return ZERO
    if not f:
        return const(c)
    if len(f) == 1 and next(iter(f.values())) == 1:
        core = next(iter(f))
    else:
        core = mk("mul", tuple(sorted(f.items(), key=lambda be: be[0].id)))
    return scale(c, core)


def mul(a, b):
    ka, fa = _fac(a)
    kb, fb = _fac(b)
    c = cmul(ka, kb)
    if cis0(c):
        return ZERO
    return _mulf(c, fa, fb.items())


def _mulf(c, f, items):
    f = dict(f)
    for bb, ee in items:
        if bb.op == "root":
            a, m = bb.args
            tot = f.get(bb, 0) + ee
            sgn = 1 if tot >= 0 else -1
            q, r = divmod(abs(tot), m)
            f[bb] = sgn * r
            if q:
                w = powi(a, sgn * q)
                kw, fw = _fac(w)
                c = cmul(c, kw)
                for b2, e2 in fw.items():
                    f[b2] = f.get(b2, 0) + e2
        else:
            f[bb] = f.get(bb, 0) + ee
    return _mk_mul(c, f)


def powi(a, k: int):
    k = int(k)
    if k == 0:
        return ONE
    if k == 1:
        return a
    ka, fa = _fac(a)
    if k < 0:
        try:
            ck = cinv(ka)
        except ZeroDivisionError:
            if cis0(ka):
                raise
            # non-monomial multiquadratic constant: keep it as an opaque base
            return _mulf(Fraction(1), {}, [(mk("qsatom", ka), k)] + [(b, e * k) for b, e in fa.items()])
        c = _cpow(ck, -k)
    else:
        c = _cpow(ka, k)
    return _mulf(c, {}, [(b, e * k) for b, e in fa.items()])


def _cpow(c, k):
    if not isinstance(c, QS):
        return c ** k
    r = Fraction(1)
    for _ in range(k):
        r = cmul(r, c)
    return r


def div(a, b):
    if b.op == "const" and cis0(cval(b)):
        raise ZeroDivisionError("division by the constant 0")
    return mul(a, powi(b, -1))


# ----------------------------------------------------------------------------- functions
_ODD = {"sinh", "tanh", "sin", "arcsinh", "erf", "arctan", "arcsin"}
_EVEN = {"cosh", "cos"}


def _lead_neg(a):
    """canonical sign of an expression: sign of its first coefficient."""
    if a.op == "const":
        c = cval(a)
    elif a.op == "add":
        c0, terms = a.args
        c = terms[0][1]
    else:
        return False
    if isinstance(c, QS):
        k = sorted(c.t)[0]
        return c.t[k] < 0
    return c < 0


def _pi_multiple(a):
    """a == q*pi with q rational -> q, else None"""
    if a.op == "const":
        c = cval(a)
        if isinstance(c, QS):
            if len(c.t) == 1 and (1, -2) in c.t:
                return c.t[(1, -2)]
            return None
        return Fraction(0) if c == 0 else None
    return None


def cospi(q: Fraction):
    """cos(pi*q) as canonical node (range reduced to 0 < q < 1/2)."""
    q = Fraction(q) % 2
    if q > 1:
        q = 2 - q               # cos(2pi - x) = cos x
    if q > Fraction(1, 2):
        return neg(cospi_base(1 - q))
    return cospi_base(q)


def cospi_base(q):
    if q == 0:
        return ONE
    if q == Fraction(1, 2):
        return ZERO
    if q == Fraction(1, 3):
        return const(Fraction(1, 2))
    if q == Fraction(1, 4):
        return const(QS.sqrt_rat(Fraction(1, 2)))
    if q == Fraction(1, 6):
        return const(QS.sqrt_rat(Fraction(3, 4)))
    return mk("cospi", q)


def fn(name, a):
    if name == "sqrt":
        return root(a, 2)
    if name in _ODD and _lead_neg(a):
        return neg(fn(name, neg(a)))
    if name in _EVEN and _lead_neg(a):
        return fn(name, neg(a))
    if name in ("cos", "sin"):
        q = _pi_multiple(a)
        if q is not None:
            return cospi(q) if name == "cos" else cospi(Fraction(1, 2) - q)
    if name == "arcsin" and a.op == "const" and not isinstance(cval(a), QS) and abs(cval(a)) == 1:
        return const(QS({(1, -2): Fraction(1, 2) * cval(a)}))
    if name in ("sinh", "tanh", "sin", "arcsinh", "erf", "arctan", "arcsin") and a is ZERO:
        return ZERO
    if name in ("cosh", "cos") and a is ZERO:
        return ONE
    if name == "exp":
        if a is ZERO:
            return ONE
        if a.op == "mul":
            # exp(t*(u+v)) : distribute so that exp(a+b) -> exp(a)*exp(b) applies
            fs = a.args[0]
            hit = [(b, e) for b, e in fs if b.op == "add" and e == 1 and not cis0(b.args[0])]      # only sums with a constant part
            if len(hit) == 1:
                rest = ONE
                for b, e in fs:
                    if b is not hit[0][0]:
                        rest = mul(rest, powi(b, e))
                c0, terms = hit[0][0].args
                REWRITES.add("exp(t*(u+v)) -> exp(t*u + t*v)")
                return fn("exp", addn([mul(rest, const(c0))] + [mul(rest, scale(c, t)) for t, c in terms]))
        if a.op == "fn" and a.args[0] == "log":
            REWRITES.add("exp(log t) -> t  [t > 0]")
            return a.args[1]
        if a.op == "add":
            c0, terms = a.args
            if len(terms) > 1 or not cis0(c0):
                REWRITES.add("exp(a+b) -> exp(a)*exp(b)")
                r = fn("exp", const(c0)) if not cis0(c0) else ONE
                for t, c in terms:
                    r = mul(r, fn("exp", scale(c, t)))
                return r
            (t, c), = terms
            if not isinstance(c, QS):
                if c < 0:
                    REWRITES.add("exp(-t) -> 1/exp(t)")
                    return powi(fn("exp", neg(a)), -1)
                if c.denominator == 1 and c != 1:
                    REWRITES.add("exp(k*t) -> exp(t)**k")
                    return powi(fn("exp", t), int(c))
                if t.op == "fn" and t.args[0] == "log":
                    REWRITES.add("exp(c*log t) -> t**c")
                    return powr(t.args[1], const(c))
        if a.op == "const" and not isinstance(cval(a), QS) and cval(a) < 0:
            return powi(fn("exp", neg(a)), -1)
    if name == "log":
        if a is ONE:
            return ZERO
        ka, fa = _fac(a)
        if fa and all(b.op == "fn" and b.args[0] == "exp" for b in fa) and not isinstance(ka, QS) and ka > 0 and (len(fa) > 1 or ka != 1 or next(iter(fa.values())) != 1):
            REWRITES.add("log(c*prod exp(t_i)**e_i) -> log c + sum e_i*t_i  [c > 0]")
            return addn([fn("log", const(ka))] + [scale(Fraction(e), b.args[1]) for b, e in fa.items()])
        if a.op == "fn" and a.args[0] == "exp":
            REWRITES.add("log(exp t) -> t")
            return a.args[1]
        if a.op == "root":
            REWRITES.add("log(t**(1/m)) -> log(t)/m")
            return scale(Fraction(1, a.args[1]), fn("log", a.args[0]))
        if a.op == "powr":
            REWRITES.add("log(a**b) -> b*log(a)")
            return mul(a.args[1], fn("log", a.args[0]))
    return mk("fn", name, a)


def root(a, m: int):
    if m == 1:
        return a
    if a.op == "const":
        c = cval(a)
        if cis0(c):
            return ZERO
        if m == 2 and not isinstance(c, QS) and c >= 0:
            try:
                return const(QS.sqrt_rat(c))
            except Exception:
                return mk("root", a, 2)       # radicand too large to factor: keep the root as an atom (its square reduces in the normaliser)
        if m == 2 and isinstance(c, QS) and len(c.t) == 1:
            ((f, e), v), = c.t.items()
            if f == 1 and e % 2 == 0 and v >= 0:
                return const(QS.sqrt_rat(v) * QS({(1, e // 2): Fraction(1)}))
        if not isinstance(c, QS) and c > 0:
            # perfect powers
            for part in (c.numerator, c.denominator):
                r = round(part ** (1.0 / m))
                if r ** m != part:
                    break
            else:
                return const(Fraction(round(c.numerator ** (1.0 / m)), round(c.denominator ** (1.0 / m))))
    if a.op == "mul" and m == 2:
        f = dict(a.args[0])
        if all(e % 2 == 0 for e in f.values()):
            # sqrt(x**2) is |x|, not x: do not rewrite
            pass
    return mk("root", a, int(m))


def powr(a, b):
    """a ** b"""
    if b.op == "const" and not isinstance(cval(b), QS):
        q = cval(b)
        if q.denominator == 1:
            return powi(a, int(q))
        if q.denominator <= 12:
            r = root(a, q.denominator)
            return powi(r, q.numerator)
    if a is ONE:
        return ONE
    if b.op == "add":
        c0, terms = b.args
        if not isinstance(c0, QS) and c0.denominator == 1 and c0 != 0:
            REWRITES.add("a**(b+k) -> a**b * a**k  [k integer]")
            return mul(powr(a, _mk_add(Fraction(0), dict(terms))), powi(a, int(c0)))
    if a.op == "powr":
        REWRITES.add("(a**b)**c -> a**(b*c)  [a > 0]")
        return powr(a.args[0], mul(a.args[1], b))
    if a.op == "fn" and a.args[0] == "exp":
        REWRITES.add("exp(t)**b -> exp(b*t)")
        return fn("exp", mul(b, a.args[1]))
    if not (b.op == "const"):
        REWRITES.add("a**b -> exp(b*log a)  [a > 0, b not constant]")
        return fn("exp", mul(b, fn("log", a)))
    return mk("powr", a, b)


def uf(name, args, dmulti=None):
    args = tuple(args)
    if dmulti is None:
        dmulti = (0,) * len(args)
    return mk("uf", name, args, tuple(dmulti))


# ----------------------------------------------------------------------------- traversal helpers
def children(n):
    op = n.op
    if op == "add":
        return [t for t, _ in n.args[1]]
    if op == "mul":
        return [b for b, _ in n.args[0]]
    if op == "fn":
        return [n.args[1]]
    if op == "root":
        return [n.args[0]]
    if op == "powr":
        return [n.args[0], n.args[1]]
    if op == "uf":
        return list(n.args[1])
    return []


def walk(roots):
    seen, out, stack = set(), [], list(roots)
    while stack:
        n = stack.pop()
        if n.id in seen:
            continue
        seen.add(n.id)
        out.append(n)
        stack.extend(children(n))
    return out


def free_vars(roots):
    return sorted({n for n in walk(roots) if n.op == "var"}, key=lambda n: n.id)


def has_free(n):
    return any(m.op in ("var", "uf") for m in walk([n]))


def show(n, depth=4):
    op = n.op
    if op == "const":
        c = cval(n)
        return str(c) if not isinstance(c, QS) else "QS" + repr(dict(c.t))
    if op == "var":
        return n.args[0]
    if depth <= 0:
        return f"#{n.id}"
    if op == "add":
        c0, terms = n.args
        s = " + ".join((f"{c}*" if not cis1(c) else "") + show(t, depth - 1) for t, c in terms)
        return f"({c0} + {s})" if not cis0(c0) else f"({s})"
    if op == "mul":
        return "*".join(show(b, depth - 1) + (f"^{e}" if e != 1 else "") for b, e in n.args[0])
    if op == "fn":
        return f"{n.args[0]}({show(n.args[1], depth - 1)})"
    if op == "root":
        return f"root{n.args[1]}({show(n.args[0], depth - 1)})"
    if op == "powr":
        return f"({show(n.args[0], depth - 1)})**({show(n.args[1], depth - 1)})"
    if op == "uf":
        d = "".join(map(str, n.args[2]))
        return f"{n.args[0]}{'_d' + d if any(n.args[2]) else ''}({', '.join(show(a, depth - 1) for a in n.args[1])})"
    if op == "cospi":
        return f"cospi({n.args[0]})"
    return f"{op}#{n.id}"


# ----------------------------------------------------------------------------- differentiation
RSQRTPI = QS({(1, 1): Fraction(1)})


def _dfn(name, a):
    if name == "exp":
        return fn("exp", a)
    if name == "log":
        return powi(a, -1)
    if name == "sin":
        return fn("cos", a)
    if name == "cos":
        return neg(fn("sin", a))
    if name == "sinh":
        return fn("cosh", a)
    if name == "cosh":
        return fn("sinh", a)
    if name == "tanh":
        return sub(ONE, powi(fn("tanh", a), 2))
    if name == "arcsinh":
        return powi(root(add(powi(a, 2), ONE), 2), -1)
    if name == "arctan":
        return powi(add(powi(a, 2), ONE), -1)
    if name == "arcsin":
        return powi(root(sub(ONE, powi(a, 2)), 2), -1)
    if name == "erf":
        return mul(const(QS({(1, 1): Fraction(2)})), fn("exp", neg(powi(a, 2))))
    raise NotImplementedError(name)


def diff(n, v, memo=None):
    """d n / d v  (v a var node)."""
    memo = {} if memo is None else memo
    r = memo.get(n.id)
    if r is not None:
        return r
    op = n.op
    if op in ("const", "cospi", "qsatom"):
        r = ZERO
    elif op == "var":
        r = ONE if n is v else ZERO
    elif op == "add":
        r = addn([scale(c, diff(t, v, memo)) for t, c in n.args[1]])
    elif op == "mul":
        parts = []
        for b, e in n.args[0]:
            db = diff(b, v, memo)
            if db is ZERO:
                continue
            # d(b^e) * rest = e * b^(e-1) * db * rest = n * e * db / b
            parts.append(mul(mul(scale(Fraction(e), n), db), powi(b, -1)))
        r = addn(parts)
    elif op == "fn":
        name, a = n.args
        da = diff(a, v, memo)
        r = ZERO if da is ZERO else mul(_dfn(name, a), da)
    elif op == "root":
        a, m = n.args
        da = diff(a, v, memo)
        # d a^(1/m) = (1/m) a^(1/m) / a * da
        r = ZERO if da is ZERO else mul(scale(Fraction(1, m), n), mul(da, powi(a, -1)))
    elif op == "powr":
        a, b = n.args
        da, db = diff(a, v, memo), diff(b, v, memo)
        r = ZERO
        if da is not ZERO:
            r = add(r, mul(mul(b, n), mul(da, powi(a, -1))))
        if db is not ZERO:
            r = add(r, mul(mul(n, fn("log", a)), db))
    elif op == "uf":
        name, args, dm = n.args
        parts = []
        for i, a in enumerate(args):
            da = diff(a, v, memo)
            if da is ZERO:
                continue
            dm2 = tuple(d + (1 if j == i else 0) for j, d in enumerate(dm))
            parts.append(mul(uf(name, args, dm2), da))
        r = addn(parts)
    else:
        raise NotImplementedError(op)
    memo[n.id] = r
    return r


# ----------------------------------------------------------------------------- substitution
def subst(n, mapping, memo=None):
    """replace nodes (by identity) according to mapping {node: node}."""
    memo = {} if memo is None else memo
    if n in mapping:
        return mapping[n]
    r = memo.get(n.id)
    if r is not None:
        return r
    op = n.op
    if op in ("const", "var", "cospi", "qsatom"):
        r = n
    elif op == "add":
        r = addn([const(n.args[0])] + [scale(c, subst(t, mapping, memo)) for t, c in n.args[1]])
    elif op == "mul":
        r = ONE
        for b, e in n.args[0]:
            r = mul(r, powi(subst(b, mapping, memo), e))
    elif op == "fn":
        r = fn(n.args[0], subst(n.args[1], mapping, memo))
    elif op == "root":
        r = root(subst(n.args[0], mapping, memo), n.args[1])
    elif op == "powr":
        r = powr(subst(n.args[0], mapping, memo), subst(n.args[1], mapping, memo))
    elif op == "uf":
        r = uf(n.args[0], [subst(a, mapping, memo) for a in n.args[1]], n.args[2])
    else:
        raise NotImplementedError(op)
    memo[n.id] = r
    return r


# ----------------------------------------------------------------------------- numeric evaluation
class NotGround(Exception):
    pass


def evalf(n, env, m=None, memo=None, ufs=None):
    """evaluate with mpmath context m (mp or iv); env maps var name -> value; ufs maps (name, dmulti) -> callable."""
    import mpmath
    m = m or mpmath.mp
    memo = {} if memo is None else memo
    r = memo.get(n.id)
    if r is not None:
        return r
    op = n.op
    if op == "const":
        r = cfloat(cval(n), m)
    elif op == "qsatom":
        r = cfloat(n.args[0], m)
    elif op == "var":
        if n.args[0] not in env:
            raise NotGround(n.args[0])
        r = m.mpf(env[n.args[0]]) if not hasattr(env[n.args[0]], "_mpi_") and not hasattr(env[n.args[0]], "_mpf_") else env[n.args[0]]
    elif op == "add":
        r = cfloat(n.args[0], m)
        for t, c in n.args[1]:
            r = r + cfloat(c, m) * evalf(t, env, m, memo, ufs)
    elif op == "mul":
        r = m.mpf(1)
        for b, e in n.args[0]:
            r = r * evalf(b, env, m, memo, ufs) ** e
    elif op == "fn":
        name, a = n.args
        x = evalf(a, env, m, memo, ufs)
        if name == "arcsinh":
            r = m.log(x + m.sqrt(x * x + 1))
        elif name in ("tanh", "sinh", "cosh") and m is not mpmath.mp:
            ep, em = m.exp(x), m.exp(-x)
            r = {"tanh": lambda: (ep - em) / (ep + em), "sinh": lambda: (ep - em) / 2, "cosh": lambda: (ep + em) / 2}[name]()
        elif name == "arctan":
            r = m.atan(x)
        elif name == "arcsin":
            r = m.asin(x)
        elif name == "erf":
            if m is not mpmath.mp:
                raise NotGround("erf interval")
            r = m.erf(x)
        else:
            r = getattr(m, name)(x)
    elif op == "root":
        x = evalf(n.args[0], env, m, memo, ufs)
        r = m.sqrt(x) if n.args[1] == 2 else m.exp(m.log(x) / n.args[1])
        if n.args[1] != 2 and m is mpmath.mp and x == 0:
            r = m.mpf(0)
    elif op == "powr":
        r = m.exp(evalf(n.args[1], env, m, memo, ufs) * m.log(evalf(n.args[0], env, m, memo, ufs)))
    elif op == "cospi":
        q = n.args[0]
        r = m.cos(m.pi * m.mpf(q.numerator) / m.mpf(q.denominator))
    elif op == "uf":
        if ufs is None or (n.args[0], n.args[2]) not in ufs:
            raise NotGround(n.args[0])
        r = ufs[(n.args[0], n.args[2])](*[evalf(a, env, m, memo, ufs) for a in n.args[1]])
    else:
        raise NotImplementedError(op)
    memo[n.id] = r
    return r
