"""DAG -> z3 (division-free: every node becomes a (numerator, denominator) pair of polynomial terms)."""
from __future__ import annotations
import itertools, time
from fractions import Fraction
import z3
from . import dag
from .dag import QS, cval

ONE = z3.RealVal(1)


def _is1(t):
    return z3.is_rational_value(t) and t.as_fraction() == 1


def _rv(c: Fraction):
    return z3.RealVal(f"{c.numerator}/{c.denominator}")


class Translator:
    def __init__(self):
        self.memo = {}
        self.axioms = []          # definitional facts about atoms (always true)
        self.dens = []            # denominators that must be non-zero for the expression to be defined
        self.atoms = {}           # fn name -> [(z3var, p_arg, q_arg, node)]
        self.ufs = {}             # (name, dmulti) -> [(z3var, [(p,q)...], node)]
        self.cospis = {}          # Fraction q -> z3var
        self.consts = {}
        self._side_cache = None

    # ---- constants
    def _qs(self, c):
        tot = None
        for (f, e), v in sorted(c.t.items()):
            term = _rv(v)
            if f != 1:
                a = self.consts.get(("sqrt", f))
                if a is None:
                    a = z3.Real(f"sqrt_{f}")
                    self.consts[("sqrt", f)] = a
                    self.axioms += [a > 0, a * a == f]
                term = term * a
            if e != 0:
                rsp, spi = self._pi()
                for _ in range(abs(e)):
                    term = term * (rsp if e > 0 else spi)
            tot = term if tot is None else tot + term
        return tot if tot is not None else z3.RealVal(0)

    def _pi(self):
        if "rsp" not in self.consts:
            rsp, spi = z3.Real("rsqrtpi"), z3.Real("sqrtpi")
            self.consts["rsp"] = (rsp, spi)
            # 1.7724538509055159 < sqrt(pi) < 1.7724538509055161
            self.axioms += [rsp > 0, spi * rsp == 1, spi > _rv(Fraction(17724538509055159, 10 ** 16)), spi < _rv(Fraction(17724538509055161, 10 ** 16))]
        return self.consts["rsp"]

    def _c(self, c):
        return self._qs(c) if isinstance(c, QS) else _rv(c)

    # ---- nodes
    def rz(self, n):
        r = self.memo.get(n.id)
        if r is not None:
            return r
        op = n.op
        if op == "const":
            r = (self._c(cval(n)), ONE)
        elif op == "qsatom":
            r = (self._qs(n.args[0]), ONE)
        elif op == "var":
            name, kind = n.args
            r = (z3.ToReal(z3.Int(name)) if kind == "I" else z3.Real(name), ONE)
        elif op == "add":
            c0, terms = n.args
            parts = [(self._c(c), self.rz(t)) for t, c in terms]
            # common denominator over distinct denominators
            dens = []
            for _, (_, q) in parts:
                if not _is1(q) and not any(q.eq(d) for d in dens):
                    dens.append(q)
            if not dens:
                num = self._c(c0) if not dag.cis0(c0) else None
                for c, (p, _) in parts:
                    t = p if _is1(c) else c * p
                    num = t if num is None else num + t
                r = (num, ONE)
            else:
                den = dens[0]
                for d in dens[1:]:
                    den = den * d
                num = self._c(c0) * den if not dag.cis0(c0) else None
                for c, (p, q) in parts:
                    t = p if _is1(c) else c * p
                    for d in dens:
                        if not (not _is1(q) and q.eq(d)):
                            t = t * d
                    num = t if num is None else num + t
                r = (num, den)
        elif op == "mul":
            num, den = ONE, ONE
            for b, e in n.args[0]:
                p, q = self.rz(b)
                if e < 0:
                    self.dens.append(p)
                    self._side_cache = None
                    p, q, e = q, p, -e
                num = self._m(num, self._p(p, e))
                den = self._m(den, self._p(q, e))
            r = (num, den)
        elif op == "root":
            a, m = n.args
            pa, qa = self.rz(a)
            v = z3.Real(f"root{m}!{n.id}")
            self.axioms += [v >= 0, self._p(v, m) * qa == pa]
            self.atoms.setdefault(f"root{m}", []).append((v, pa, qa, a))
            r = (v, ONE)
        elif op == "powr":
            r = self.rz(dag.mk("fn", "exp", dag.mul(n.args[1], dag.fn("log", n.args[0]))))
        elif op == "cospi":
            r = (self._cospi(n.args[0]), ONE)
        elif op == "fn":
            name, a = n.args
            v = z3.Real(f"{name}!{n.id}")
            pa, qa = self.rz(a)
            s = pa * qa if not _is1(qa) else pa        # sign of the argument
            self.atoms.setdefault(name, []).append((v, pa, qa, a))
            ax = self.axioms
            if name == "exp":
                ax += [v > 0, z3.Implies(s > 0, v > 1), z3.Implies(s < 0, v < 1), z3.Implies(s == 0, v == 1)]
                # exp(t) >= 1 + t
                ax.append(v * qa >= qa + pa if _is1(qa) else z3.BoolVal(True))
            elif name == "cosh":
                ax += [v >= 1]
            elif name in ("tanh", "erf"):
                ax += [v < 1, v > -1]
            if name in ("tanh", "erf", "sinh", "arcsinh", "arctan"):
                ax += [z3.Implies(s > 0, v > 0), z3.Implies(s < 0, v < 0), z3.Implies(s == 0, v == 0)]
            if name == "log":
                # log t <, =, > 0  <=>  t <, =, > 1  (t > 0)
                d = pa - qa if _is1(qa) else (pa - qa) * qa
                ax += [z3.Implies(d > 0, v > 0), z3.Implies(d < 0, v < 0), z3.Implies(d == 0, v == 0)]
            if name in ("sin", "cos"):
                ax += [v <= 1, v >= -1]
            r = (v, ONE)
        elif op == "uf":
            name, args, dm = n.args
            v = z3.Real(f"{name}_{''.join(map(str, dm))}!{n.id}")
            self.ufs.setdefault((name, dm), []).append((v, [self.rz(a) for a in args], n))
            r = (v, ONE)
        else:
            raise NotImplementedError(op)
        self.memo[n.id] = r
        self._side_cache = None
        return r

    def _cospi(self, q):
        """cos(pi q), 0<q<1/2, on ONE Chebyshev chain c_k = cos(k pi/M): c_k = 2 c_1 c_{k-1} - c_{k-2}, c_M = -1, c_1 enclosed to 1e-15.
        M is the lcm of all denominators seen; when it grows the old chain is tied to the new one."""
        v = self.cospis.get(q)
        if v is not None:
            return v
        import math
        M_old = self.cospis.get("M")
        M = q.denominator if M_old is None else M_old * q.denominator // math.gcd(M_old, q.denominator)
        if M != M_old:
            import mpmath
            c = [z3.RealVal(1), z3.Real(f"cospi_1_{M}")]
            ax = self.axioms
            for k in range(2, M + 1):
                ck = z3.Real(f"cospi_{k}_{M}")
                ax.append(ck == 2 * c[1] * c[k - 1] - c[k - 2])
                c.append(ck)
            ax.append(c[M] == -1)
            with mpmath.workdps(40):
                approx = mpmath.cos(mpmath.pi / M)
                lo = Fraction(int(mpmath.floor(approx * 10 ** 15)) - 1, 10 ** 15)
                hi = Fraction(int(mpmath.floor(approx * 10 ** 15)) + 2, 10 ** 15)
            ax += [c[1] > _rv(lo), c[1] < _rv(hi)]
            if M_old is not None:
                old = self.cospis["chain"]
                f = M // M_old
                for k in range(1, M_old + 1):
                    ax.append(old[k] == c[k * f])
            self.cospis["M"] = M
            self.cospis["chain"] = c
            self._side_cache = None
        c = self.cospis["chain"]
        v = c[q.numerator * (M // q.denominator)]
        self.cospis[q] = v
        return v

    def _m(self, a, b):
        if _is1(a):
            return b
        if _is1(b):
            return a
        return a * b

    def _p(self, a, k):
        if _is1(a) or k == 1:
            return a
        if k == 0:
            return ONE
        r = a
        for _ in range(k - 1):
            r = r * a
        return r

    # ---- side conditions
    _pp_cache = {}

    @staticmethod
    def _perfect_power(a, m):
        """radicand a (a rational function of variables / opaque atoms) == c0**m * B**m ?  returns the node c0*B or None.
        sympy proposes the factorisation, the own normaliser certifies  a - (c0*B)**m == 0  before it is used."""
        key = (a.id, m)
        if key in Translator._pp_cache:
            return Translator._pp_cache[key]
        res = None
        try:
            import sympy as sp
            back = {}

            def to(n):
                if n.op == "const":
                    c = cval(n)
                    if isinstance(c, QS):
                        raise ValueError
                    return sp.Rational(c.numerator, c.denominator)
                if n.op == "add":
                    c0, terms = n.args
                    if isinstance(c0, QS) or any(isinstance(c, QS) for _, c in terms):
                        raise ValueError
                    return sp.Rational(c0.numerator, c0.denominator) + sum(sp.Rational(c.numerator, c.denominator) * to(t) for t, c in terms)
                if n.op == "mul":
                    out = sp.Integer(1)
                    for b, e in n.args[0]:
                        out = out * to(b) ** e
                    return out
                sym = sp.Symbol(f"n{n.id}")
                back[sym] = n
                return sym
            if sum(1 for _ in dag.walk([a])) < 400:
                ex = sp.factor(sp.together(to(a)))
                c, fs = sp.factor_list(sp.numer(ex))
                cd, fd = sp.factor_list(sp.denom(ex))
                c = sp.Rational(c) / sp.Rational(cd)
                if all(e % m == 0 for _, e in fs + fd) and (fs or fd):
                    sign = -1 if c < 0 else 1
                    if not (sign < 0 and m % 2 == 0):
                        c = abs(c)
                        rn, rd = sp.integer_nthroot(int(c.p), m), sp.integer_nthroot(int(c.q), m)
                        if rn[1] and rd[1]:
                            def frm(e):
                                e = sp.Poly(e, *sorted(e.free_symbols, key=str)) if e.free_symbols else None
                                if e is None:
                                    return None
                                tot = dag.ZERO
                                for mon, co in e.terms():
                                    t = dag.const(Fraction(int(sp.Rational(co).p), int(sp.Rational(co).q)))
                                    for g, k in zip(e.gens, mon):
                                        if k:
                                            t = dag.mul(t, dag.powi(back[g], k))
                                    tot = dag.add(tot, t)
                                return tot
                            B = dag.const(Fraction(sign * int(rn[0]), int(rd[0])))
                            for f, e in fs:
                                B = dag.mul(B, dag.powi(frm(f), e // m))
                            for f, e in fd:
                                B = dag.mul(B, dag.powi(frm(f), -(e // m)))
                            from . import poly
                            if poly.numerator(dag.sub(a, dag.powi(B, m))).is_zero():
                                res = B
        except Exception:
            res = None
        Translator._pp_cache[key] = res
        return res

    def _root_lemmas(self):
        """m-th root of A * B**m (B the perfect-power part of a product radicand): equals root_m(A) * |B| (m even) or root_m(A) * B for B >= 0
        (m odd), where root_m(A) is an atom that already occurs (or A == 1).  Sound for defined roots; spares nlsat the degree-m reasoning."""
        out = []
        for name, lst in list(self.atoms.items()):
            if not name.startswith("root"):
                continue
            m = int(name[4:])
            byarg = {a.id: v for (v, _, _, a) in lst}
            for (v, pa, qa, a) in lst:
                B = self._perfect_power(a, m) if a.op in ("mul", "add") else None
                if B is not None or a.op != "mul" or not any(abs(e) >= m for _, e in a.args[0]):
                    if B is not None:
                        pb, qb = self.rz(B)
                        sb = pb * qb if not _is1(qb) else pb
                        out.append(z3.Implies(sb >= 0, v * qb == pb))
                        if m % 2 == 0:
                            out.append(z3.Implies(sb < 0, v * qb == -pb))
                    continue
                A, B = dag.ONE, dag.ONE
                for b, e in a.args[0]:
                    k = e // m if e >= 0 else -((-e) // m)
                    if k:
                        B = dag.mul(B, dag.powi(b, k))
                    if e - k * m:
                        A = dag.mul(A, dag.powi(b, e - k * m))
                if B is dag.ONE:
                    continue
                if A is dag.ONE:
                    w = ONE
                elif A.id in byarg:
                    w = byarg[A.id]
                else:
                    continue
                pb, qb = self.rz(B)
                sb = pb * qb if not _is1(qb) else pb
                out.append(z3.Implies(sb >= 0, v * qb == w * pb))
                if m % 2 == 0:
                    out.append(z3.Implies(sb < 0, v * qb == -(w * pb)))
        return out

    def side(self):
        if self._side_cache is not None:
            return self._side_cache
        lemmas = self._root_lemmas()
        out = list(self.axioms) + lemmas + [d != 0 for d in self.dens]
        mono = ("exp", "tanh", "sinh", "log", "arcsinh", "erf", "arctan", "arcsin", "root2", "root3", "root4", "root5", "root6")
        for name, lst in self.atoms.items():
            if len(lst) > 14:
                pairs = []        # too many: rely on syntactic congruence only
            else:
                pairs = itertools.combinations(lst, 2)
            for (v1, p1, q1, _), (v2, p2, q2, _) in pairs:
                l, r = self._m(p1, q2), self._m(p2, q1)
                out.append(z3.Implies(l == r, v1 == v2))
                if name in mono:
                    if _is1(q1) and _is1(q2):
                        out += [(l < r) == (v1 < v2), (l > r) == (v1 > v2)]
                    else:
                        out.append(z3.Implies(q1 * q2 > 0, z3.And((l < r) == (v1 < v2), (l > r) == (v1 > v2))))
                        out.append(z3.Implies(q1 * q2 < 0, z3.And((l < r) == (v1 > v2), (l > r) == (v1 < v2))))
        byarg = {}
        for name, lst in self.atoms.items():
            for (v, p, q, a) in lst:
                byarg.setdefault(a.id, {})[name] = v
        for d in byarg.values():
            if "exp" in d and "cosh" in d:
                out.append(2 * d["cosh"] * d["exp"] == d["exp"] * d["exp"] + 1)
            if "exp" in d and "sinh" in d:
                out.append(2 * d["sinh"] * d["exp"] == d["exp"] * d["exp"] - 1)
            if "cosh" in d and "sinh" in d:
                out.append(d["cosh"] * d["cosh"] - d["sinh"] * d["sinh"] == 1)
            if "tanh" in d and "cosh" in d:
                out.append((1 - d["tanh"] * d["tanh"]) * d["cosh"] * d["cosh"] == 1)
            if "tanh" in d and "sinh" in d and "cosh" in d:
                out.append(d["tanh"] * d["cosh"] == d["sinh"])
            if "sin" in d and "cos" in d:
                out.append(d["sin"] * d["sin"] + d["cos"] * d["cos"] == 1)
        # exp atoms with proportional arguments a1 == (p/q) * a2:  v1**q == v2**p
        el = self.atoms.get("exp", [])
        if len(el) <= 12:
            for (v1, _, _, a1), (v2, _, _, a2) in itertools.combinations(el, 2):
                r = _ratio(a1, a2)
                if r is not None and 0 < abs(r.numerator) <= 12 and r.denominator <= 12:
                    pnum, qden = r.numerator, r.denominator
                    if pnum > 0:
                        out.append(self._p(v1, qden) == self._p(v2, pnum))
                    else:
                        out.append(self._p(v1, qden) * self._p(v2, -pnum) == 1)
        # exp and log are mutually inverse: exp(t) with t == log(y) is y; log(z) with z == exp(t) is t
        ll = self.atoms.get("log", [])
        if len(el) * len(ll) <= 64:
            for (ve, pe, qe, ae) in el:
                for (vl, pl, ql, al) in ll:
                    out.append(z3.Implies(pe == vl * qe, ve * ql == pl))
                    out.append(z3.Implies(pl == ve * ql, vl * qe == pe))
        # tanh(t) and exp(2t):  tanh * (E + 1) == E - 1
        exps = {a.id: v for (v, p, q, a) in self.atoms.get("exp", [])}
        for (v, p, q, a) in self.atoms.get("tanh", []):
            E = exps.get(dag.scale(Fraction(2), a).id)
            if E is not None:
                out.append(v * (E + 1) == E - 1)
            e1 = exps.get(a.id)
            if e1 is not None:
                out.append(v * (e1 * e1 + 1) == e1 * e1 - 1)
        for (v, p, q, a) in self.atoms.get("arcsin", []):
            s_ = p * q if not _is1(q) else p
            out += [z3.Implies(s_ > 0, v > 0), z3.Implies(s_ < 0, v < 0), z3.Implies(s_ == 0, v == 0)]
        for key, lst in self.ufs.items():
            for (v1, a1, _), (v2, a2, _) in itertools.combinations(lst, 2):
                eqs = [self._m(p1, q2) == self._m(p2, q1) for (p1, q1), (p2, q2) in zip(a1, a2)]
                out.append(z3.Implies(z3.And(*eqs) if eqs else True, v1 == v2))
        self._side_cache = out
        return out

    # ---- formulas  (see sym.F)
    def sign_term(self, n):
        """z3 term with the same sign as node n (where defined)."""
        p, q = self.rz(n)
        return p if _is1(q) else p * q

    def formula(self, f):
        tag = f[0]
        if tag == "true":
            return z3.BoolVal(True)
        if tag == "false":
            return z3.BoolVal(False)
        if tag == "cmp":
            _, op, a, b = f
            d = dag.sub(a, b)
            if op in ("eq", "ne"):
                p, _ = self.rz(d)
                return p == 0 if op == "eq" else p != 0
            s = self.sign_term(d)
            return {"lt": s < 0, "le": s <= 0, "gt": s > 0, "ge": s >= 0}[op]
        if tag == "and":
            return z3.And(*[self.formula(g) for g in f[1:]])
        if tag == "or":
            return z3.Or(*[self.formula(g) for g in f[1:]])
        if tag == "not":
            return z3.Not(self.formula(f[1]))
        if tag == "z3":
            return f[1]
        raise NotImplementedError(tag)


def _ratio(a1, a2):
    """rational r with a1 == r * a2 (as DAG nodes), else None."""
    def lead(a):
        if a.op == "add" and dag.cis0(a.args[0]):
            return a.args[1][0][1]
        if a.op in ("const",):
            return None
        return Fraction(1)
    c1, c2 = lead(a1), lead(a2)
    if c1 is None or c2 is None:
        return None
    try:
        r = dag.cmul(c1, dag.cinv(c2))
    except ZeroDivisionError:
        return None
    if isinstance(r, QS):
        return None
    return r if dag.scale(r, a2) is a1 else None


# ----------------------------------------------------------------------------- solving
STATS = {"queries": 0, "time": 0.0, "unsat": 0, "sat": 0, "unknown": 0}


def check(constraints, timeout_ms=60000, want_model=True):
    s = z3.Solver()
    s.set("timeout", int(timeout_ms))
    s.add(*constraints)
    t0 = time.time()
    r = str(s.check())
    dt = time.time() - t0
    STATS["queries"] += 1
    STATS["time"] += dt
    STATS[r] = STATS.get(r, 0) + 1
    model = s.model() if (r == "sat" and want_model) else None
    return r, model, dt, s


def model_value(model, zvar, digits=30):
    v = model.eval(zvar, model_completion=True)
    if z3.is_int_value(v):
        return Fraction(v.as_long())
    if z3.is_rational_value(v):
        return v.as_fraction()
    if z3.is_algebraic_value(v):
        a = v.approx(digits)
        return a.as_fraction()
    # ToReal(Int) etc.
    v = z3.simplify(v)
    if z3.is_rational_value(v):
        return v.as_fraction()
    raise ValueError(f"cannot read model value {v}")
