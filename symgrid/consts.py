"""multiquadratic constants: sum_k coef_k * sqrt(squarefree_k) * rsp^e_k  (rsp = 1/sqrt(pi), kept symbolic)"""
from fractions import Fraction
class TooHard(Exception):
    pass


def _sqfree(n):
    """n = s^2 * f, f squarefree; return (s, f)"""
    if n > 10 ** 14:
        # cheap square test, otherwise give up (the caller keeps the root as an atom)
        import math
        r = math.isqrt(n)
        if r * r == n:
            return r, 1
        raise TooHard()
    s, f, p = 1, 1, 2
    while p * p <= n:
        c = 0
        while n % p == 0: n //= p; c += 1
        s *= p ** (c // 2)
        if c % 2: f *= p
        p += 1
    return s, f * n
class QS:
    __slots__ = ('t',)
    def __init__(self, t): self.t = {k: v for k, v in t.items() if v != 0}
    @staticmethod
    def rat(q): return QS({(1, 0): Fraction(q)})
    @staticmethod
    def sqrt_rat(q):
        q = Fraction(q); s1, f1 = _sqfree(q.numerator); s2, f2 = _sqfree(q.denominator)
        # sqrt(a/b) = s1 sqrt(f1) / (s2 sqrt(f2)) = s1 sqrt(f1 f2) / (s2 f2)
        s3, f3 = _sqfree(f1 * f2)
        return QS({(f3, 0): Fraction(s1 * s3, s2 * f2)})
    def __add__(a, b):
        t = dict(a.t)
        for k, v in b.t.items(): t[k] = t.get(k, 0) + v
        return QS(t)
    def __neg__(a): return QS({k: -v for k, v in a.t.items()})
    def __mul__(a, b):
        t = {}
        for (f1, e1), v1 in a.t.items():
            for (f2, e2), v2 in b.t.items():
                s, f = _sqfree(f1 * f2)
                k = (f, e1 + e2); t[k] = t.get(k, 0) + v1 * v2 * s
        return QS(t)
    def inv(a):
        if len(a.t) != 1: raise ZeroDivisionError('non-monomial inverse')
        ((f, e), v), = a.t.items()
        return QS({(f, -e): 1 / (v * f)})
    def is_rat(a): return all(k == (1, 0) for k in a.t)
    def as_rat(a): return a.t.get((1, 0), Fraction(0))
    def __eq__(a, b): return isinstance(b, QS) and a.t == b.t
    def __hash__(a): return hash(tuple(sorted(a.t.items())))
    def __repr__(a): return 'QS%r' % (a.t,)
