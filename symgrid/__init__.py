"""symgrid: symbolic execution of NumPy code on object arrays of exact real expressions, decided with z3."""
