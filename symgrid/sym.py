"""Sym scalars (elements of NumPy object arrays), symbolic booleans, and the re-execution path explorer."""
from __future__ import annotations
import math
from fractions import Fraction
import numpy as np
import mpmath
from mpmath import iv
from . import dag
from .dag import N, const, NotEncodable

iv.dps = 60


class PathAbort(BaseException):
    """current path is infeasible / abandoned (BaseException: must not be swallowed by `except Exception`)."""


class HarnessError(Exception):
    """the engine cannot proceed soundly (reported as inconclusive, never as success or violation)."""


# ----------------------------------------------------------------------------- formulas
TRUE, FALSE = ("true",), ("false",)


def f_and(*fs):
    fs = [f for f in fs if f != TRUE]
    if any(f == FALSE for f in fs):
        return FALSE
    if not fs:
        return TRUE
    return fs[0] if len(fs) == 1 else ("and",) + tuple(fs)


def f_or(*fs):
    fs = [f for f in fs if f != FALSE]
    if any(f == TRUE for f in fs):
        return TRUE
    if not fs:
        return FALSE
    return fs[0] if len(fs) == 1 else ("or",) + tuple(fs)


def f_not(f):
    if f == TRUE:
        return FALSE
    if f == FALSE:
        return TRUE
    if f[0] == "not":
        return f[1]
    if f[0] == "cmp":
        inv = {"lt": "ge", "le": "gt", "gt": "le", "ge": "lt", "eq": "ne", "ne": "eq"}
        return ("cmp", inv[f[1]], f[2], f[3])
    return ("not", f)


_GROUND_MEMO = {}


def ground_sign(n):
    """sign (-1,0,1) of a closed term by exact / interval evaluation; None if it has free variables."""
    if n.op == "const" and not isinstance(dag.cval(n), dag.QS):
        c = dag.cval(n)
        return (c > 0) - (c < 0)
    key = n.id
    if key in _GROUND_MEMO:
        return _GROUND_MEMO[key]
    if dag.has_free(n):
        _GROUND_MEMO[key] = None
        return None
    try:
        d = dag.evalf(n, {}, iv)
    except dag.NotGround:
        d = None
    if d is None:
        with mpmath.workdps(60):
            v = dag.evalf(n, {}, mpmath.mp)
            r = 0 if abs(v) < mpmath.mpf(10) ** -45 else (1 if v > 0 else -1)
            if r == 0:
                raise HarnessError(f"ground comparison undecided: {dag.show(n)}")
    elif d.a > 0:
        r = 1
    elif d.b < 0:
        r = -1
    elif d.a == 0 and d.b == 0:
        r = 0
    else:
        # an exact zero that interval arithmetic cannot certify: try polynomial normalisation
        from . import poly
        if poly.is_zero(n):
            r = 0
        else:
            raise HarnessError(f"ground comparison undecided at 60 digits: {dag.show(n)} in {d}")
    _GROUND_MEMO[key] = r
    return r


def cmp(op, a: N, b: N):
    """formula for `a op b`, folded when it is decidable without the solver."""
    if a is b:
        return TRUE if op in ("le", "ge", "eq") else FALSE
    d = dag.sub(a, b)
    s = ground_sign(d)
    if s is not None:
        return TRUE if {"lt": s < 0, "le": s <= 0, "gt": s > 0, "ge": s >= 0, "eq": s == 0, "ne": s != 0}[op] else FALSE
    return ("cmp", op, a, b)


def eval_formula(f, env, ufs=None):
    tag = f[0]
    if tag == "true":
        return True
    if tag == "false":
        return False
    if tag == "cmp":
        with mpmath.workdps(50):
            d = dag.evalf(dag.sub(f[2], f[3]), env, mpmath.mp, None, ufs)
            tol = mpmath.mpf(10) ** -40
            s = 0 if abs(d) < tol else (1 if d > 0 else -1)
        return {"lt": s < 0, "le": s <= 0, "gt": s > 0, "ge": s >= 0, "eq": s == 0, "ne": s != 0}[f[1]]
    if tag == "and":
        return all(eval_formula(g, env, ufs) for g in f[1:])
    if tag == "or":
        return any(eval_formula(g, env, ufs) for g in f[1:])
    if tag == "not":
        return not eval_formula(f[1], env, ufs)
    raise NotImplementedError(tag)


class SymBool:
    __slots__ = ("f",)

    def __init__(self, f):
        self.f = f

    def __bool__(self):
        if self.f == TRUE:
            return True
        if self.f == FALSE:
            return False
        e = Engine.cur
        if e is None:
            raise HarnessError("symbolic branch outside of an Engine run")
        return e.decide(self.f)

    def __and__(self, o):
        return SymBool(f_and(self.f, _bf(o)))

    __rand__ = __and__

    def __or__(self, o):
        return SymBool(f_or(self.f, _bf(o)))

    __ror__ = __or__

    def __invert__(self):
        return SymBool(f_not(self.f))

    def __repr__(self):
        return f"SymBool{self.f!r}"


def _bf(o):
    if isinstance(o, SymBool):
        return o.f
    return TRUE if bool(o) else FALSE


def _sb(f):
    if f == TRUE:
        return True
    if f == FALSE:
        return False
    return SymBool(f)


# ----------------------------------------------------------------------------- scalars
def node_of(x) -> N:
    if isinstance(x, Sym):
        return x.n
    if isinstance(x, N):
        return x
    if isinstance(x, np.ndarray) and x.shape == ():
        return node_of(x.item())
    return const(x)


def _isinf(o):
    return isinstance(o, (float, np.floating)) and math.isinf(o)


def _sign_of(s):
    """+1 / -1 / 0 for a Sym (forks when it depends on variables)."""
    sg = ground_sign(s.n)
    if sg is not None:
        return sg
    return 1 if (s > 0) else (-1 if (s < 0) else 0)


def _inf_arith(name, s, o):
    """IEEE semantics of an operation between a finite symbolic real s and o = +-inf."""
    if name in ("__add__", "__radd__", "__rsub__"):
        return o
    if name == "__sub__":
        return -o
    if name in ("__mul__", "__rmul__", "__rtruediv__"):
        sg = _sign_of(s)
        if sg == 0:
            return NAN
        return o * sg
    if name == "__truediv__":
        return Sym(dag.ZERO)
    raise NotEncodable(f"{name} with infinity")


def _arr(f):
    name = f.__name__

    def g(s, o):
        if isinstance(o, np.ndarray) and o.shape != ():
            return NotImplemented
        if isinstance(o, (list, tuple)) or type(o).__name__ in ("SymComplex", "ImagAng"):
            return NotImplemented
        if isinstance(o, NaNMarker):
            return o
        if _isinf(o) and name not in ("__pow__", "__rpow__", "__floordiv__", "__mod__"):
            return _inf_arith(name, s, float(o))
        return f(s, o)
    g.__name__ = name
    return g


def is_int_node(n):
    if n.op == "const":
        c = dag.cval(n)
        return not isinstance(c, dag.QS) and c.denominator == 1
    if n.op == "var":
        return n.args[1] == "I"
    if n.op == "add":
        c0, terms = n.args
        return (not isinstance(c0, dag.QS) and c0.denominator == 1 and
                all(not isinstance(c, dag.QS) and c.denominator == 1 and is_int_node(t) for t, c in terms))
    if n.op == "mul":
        return all(e > 0 and is_int_node(b) for b, e in n.args[0])
    return False


class Sym:
    __slots__ = ("n",)

    def __init__(self, n):
        self.n = n

    def __repr__(self):
        return f"Sym<{dag.show(self.n, 3)}>"

    @_arr
    def __add__(s, o):
        return Sym(dag.add(s.n, node_of(o)))

    @_arr
    def __radd__(s, o):
        return Sym(dag.add(node_of(o), s.n))

    @_arr
    def __sub__(s, o):
        return Sym(dag.sub(s.n, node_of(o)))

    @_arr
    def __rsub__(s, o):
        return Sym(dag.sub(node_of(o), s.n))

    @_arr
    def __mul__(s, o):
        return Sym(dag.mul(s.n, node_of(o)))

    @_arr
    def __rmul__(s, o):
        return Sym(dag.mul(node_of(o), s.n))

    @_arr
    def __truediv__(s, o):
        return _div(s.n, node_of(o))

    @_arr
    def __rtruediv__(s, o):
        return _div(node_of(o), s.n)

    @_arr
    def __floordiv__(s, o):
        q = _div(s.n, node_of(o))
        return q.floor()

    @_arr
    def __mod__(s, o):
        o = Sym(node_of(o))
        return s - o * (s // o)

    def __neg__(s):
        return Sym(dag.neg(s.n))

    def __pos__(s):
        return s

    @_arr
    def __pow__(s, o):
        return Sym(dag.powr(s.n, node_of(o)))

    @_arr
    def __rpow__(s, o):
        return Sym(dag.powr(node_of(o), s.n))

    def conjugate(s):
        return s

    @property
    def real(s):
        return s

    @property
    def imag(s):
        return Sym(dag.ZERO)

    def _cmp(s, o, op):
        if isinstance(o, np.ndarray) and o.shape != ():
            return NotImplemented
        if isinstance(o, NaNMarker):
            return op == "ne"
        if isinstance(o, (float, np.floating)) and math.isinf(o):
            return {"lt": o > 0, "le": o > 0, "gt": o < 0, "ge": o < 0, "eq": False, "ne": True}[op]
        if isinstance(o, (float, np.floating)) and math.isnan(o):
            return op == "ne"
        if o is None or isinstance(o, str):
            return op == "ne"
        return _sb(cmp(op, s.n, node_of(o)))

    def __lt__(s, o):
        return s._cmp(o, "lt")

    def __le__(s, o):
        return s._cmp(o, "le")

    def __gt__(s, o):
        return s._cmp(o, "gt")

    def __ge__(s, o):
        return s._cmp(o, "ge")

    def __eq__(s, o):
        return s._cmp(o, "eq")

    def __ne__(s, o):
        return s._cmp(o, "ne")

    def __hash__(s):
        return hash(("Sym", s.n.id))          # structural: equal nodes hash equal; `==` on a hash hit still goes through the solver

    def __abs__(s):
        sg = ground_sign(s.n)
        if sg is not None:
            return s if sg >= 0 else -s
        return s if (s >= 0) else -s

    def __bool__(s):
        return bool(s != 0)

    def __float__(s):
        if s.n.op == "const":
            with mpmath.workdps(30):
                return float(dag.cfloat(dag.cval(s.n)))
        raise NotEncodable(f"float() of a symbolic value {s!r}")

    def _toint(s):
        if s.n.op == "const":
            c = dag.cval(s.n)
            if not isinstance(c, dag.QS) and c.denominator == 1:
                return int(c)
            if not isinstance(c, dag.QS):
                return int(c)     # truncation like int(float)
        e = Engine.cur
        if e is None:
            raise NotEncodable("int() of a symbolic value outside an Engine run")
        return e.concretise(s.n)

    def __int__(s):
        return s._toint()

    def __index__(s):
        if not is_int_node(s.n):
            raise TypeError("symbolic real used as an index")
        return s._toint()

    def __round__(s, nd=None):
        return s.rint()

    # ---- ufunc-style methods (NumPy object loops call these)
    def sqrt(s):
        n = s.n
        ka, fa = dag._fac(n)
        if fa and all(e % 2 == 0 for e in fa.values()) and not isinstance(ka, dag.QS) and ka > 0:
            # sqrt(c * prod b^(2e)) = sqrt(c) * prod |b|^e
            r = Sym(dag.root(const(ka), 2))
            for b, e in fa.items():
                r = r * abs(Sym(b)) ** (e // 2)
            return r
        return Sym(dag.root(n, 2))

    def exp(s):
        return Sym(dag.fn("exp", s.n))

    def log(s):
        if s.n is dag.ZERO:
            return float("-inf")
        return Sym(dag.fn("log", s.n))

    def sinh(s):
        return Sym(dag.fn("sinh", s.n))

    def cosh(s):
        return Sym(dag.fn("cosh", s.n))

    def tanh(s):
        return Sym(dag.fn("tanh", s.n))

    def arcsinh(s):
        return Sym(dag.fn("arcsinh", s.n))

    def arctan(s):
        return Sym(dag.fn("arctan", s.n))

    def arcsin(s):
        return Sym(dag.fn("arcsin", s.n))

    def erf(s):
        return Sym(dag.fn("erf", s.n))

    def sin(s):
        r = dag.fn("sin", s.n)
        if r.op == "fn" and r.args[0] == "sin" and Engine.strict_trig and s.n.op != "const":
            raise NotEncodable(f"sin of a non-angle expression {s!r}")
        return Sym(r)

    def cos(s):
        r = dag.fn("cos", s.n)
        if r.op == "fn" and r.args[0] == "cos" and Engine.strict_trig and s.n.op != "const":
            raise NotEncodable(f"cos of a non-angle expression {s!r}")
        return Sym(r)

    def tan(s):
        return s.sin() / s.cos()

    def floor(s):
        return _floorlike(s, "floor")

    def ceil(s):
        return _floorlike(s, "ceil")

    def rint(s):
        return _floorlike(s, "rint")

    def arccos(s):
        from .angles import Ang
        return Ang.from_cos(s)

    def arctan2(s, x):
        from .angles import Ang
        return Ang.from_xy(Sym(node_of(x)), s)

    def isnan(s):
        return False


class NaNMarker:
    """the 0/0 that some NumPy code produces on purpose and removes with nan_to_num / isnan masks."""
    def _p(self, *a):
        return self
    __add__ = __radd__ = __sub__ = __rsub__ = __mul__ = __rmul__ = __truediv__ = __rtruediv__ = __pow__ = __rpow__ = _p
    __neg__ = __pos__ = __abs__ = conjugate = sqrt = exp = log = arccos = arcsin = sin = cos = _p

    def _c(self, o):
        return False
    __lt__ = __le__ = __gt__ = __ge__ = __eq__ = _c

    def __ne__(self, o):
        return True
    __hash__ = None

    def __repr__(self):
        return "NaN"

    def isnan(self):
        return True


NAN = NaNMarker()


def _div(a: N, b: N):
    if b.op == "const" and dag.cis0(dag.cval(b)):
        if a.op == "const" and dag.cis0(dag.cval(a)):
            return NAN
        sg = _sign_of(Sym(a))          # x / 0 = +-inf by the sign of x (IEEE, divisor +0)
        if sg == 0:
            return NAN
        return float("inf") * sg
    return Sym(dag.div(a, b))


_FRESH = [0]


def fresh_name(prefix):
    _FRESH[0] += 1
    return f"{prefix}!{_FRESH[0]}"


def _floorlike(s, kind):
    n = s.n
    if is_int_node(n):
        return s
    if n.op == "const":
        c = dag.cval(n)
        if isinstance(c, dag.QS):
            with mpmath.workdps(40):
                v = dag.cfloat(c)
                k = {"floor": mpmath.floor, "ceil": mpmath.ceil, "rint": mpmath.nint}[kind](v)
                return Sym(const(int(k)))
        if kind == "floor":
            return Sym(const(c.numerator // c.denominator))
        if kind == "ceil":
            return Sym(const(-((-c.numerator) // c.denominator)))
        return Sym(const(round(c)))
    e = Engine.cur
    if e is None:
        raise NotEncodable(f"{kind} of a symbolic value outside an Engine run")
    key = (kind, n.id)
    k = e.defs.get(key)
    if k is None:
        k = dag.var(f"{kind}_{n.id}", "I")
        e.defs[key] = k
        one, half = dag.ONE, const(Fraction(1, 2))
        pq = _int_ratio(n, e)
        if kind == "floor" and pq is not None:
            a, b = pq           # floor(a/b), b > 0 integer:  b*k <= a < b*k + b   (division-free, integer arithmetic)
            ax = f_and(cmp("le", dag.mul(b, k), a), cmp("lt", a, dag.add(dag.mul(b, k), b)))
        elif kind == "floor":
            ax = f_and(cmp("le", k, n), cmp("lt", n, dag.add(k, one)))
        elif kind == "ceil":
            ax = f_and(cmp("lt", dag.sub(k, one), n), cmp("le", n, k))
        else:   # round half to even is not modelled: ties are left open (either neighbour)
            ax = f_and(cmp("le", dag.sub(k, half), n), cmp("le", n, dag.add(k, half)))
        e.def_axioms.append(ax)
    return Sym(k)


def _int_ratio(n, e):
    """n == a / b with integer nodes a, b and b declared positive (engine.positive) -> (a, b)."""
    if n.op != "mul":
        return None
    num, den = dag.ONE, dag.ONE
    for b, ex in n.args[0]:
        if not is_int_node(b):
            return None
        if ex > 0:
            num = dag.mul(num, dag.powi(b, ex))
        else:
            if b.id not in e.positive:
                return None
            den = dag.mul(den, dag.powi(b, -ex))
    return (num, den) if den is not dag.ONE else None


# ----------------------------------------------------------------------------- path explorer
class Engine:
    cur = None
    strict_trig = True

    def __init__(self, assumptions=(), timeout_ms=10000, max_paths=512, max_enum=16):
        from .smt import Translator
        self.tr = Translator()
        self.assumptions = list(assumptions)     # formulas
        self.defs = {}
        self.def_axioms = []
        self.positive = set()      # ids of nodes the harness declared (and assumed) strictly positive
        self.timeout_ms = timeout_ms
        self.max_paths = max_paths
        self.max_enum = max_enum
        self.feas_queries = 0
        self.unknown_feas = 0

    def assume(self, *fs):
        for f in fs:
            if isinstance(f, SymBool):
                f = f.f
            elif isinstance(f, bool):
                f = TRUE if f else FALSE
            self.assumptions.append(f)

    def z3_context(self, pc=()):
        """all constraints that describe a path: assumptions, definitional axioms, path condition, atom side conditions."""
        tr = self.tr
        cs = [tr.formula(f) for f in self.assumptions] + [tr.formula(f) for f in self.def_axioms] + [tr.formula(f) for f in pc]
        return cs + tr.side()

    def feasible(self, pc, extra):
        from . import smt
        self.feas_queries += 1
        cs = self.z3_context(list(pc) + [extra])
        r, _, _, _ = smt.check(cs, self.timeout_ms, want_model=False)
        if r == "unknown":
            self.unknown_feas += 1
        return r != "unsat"

    def run(self, f):
        """Explore every feasible path of f(); returns list of Path(pc, result | exception)."""
        stack = [[]]
        out = []
        while stack:
            prefix = stack.pop()
            self.decisions = list(prefix)
            self.pos = 0
            self.pc = []
            self.todo = []
            n_defs = len(self.def_axioms)
            prev = Engine.cur
            Engine.cur = self
            res, exc = None, None
            try:
                res = f()
            except PathAbort:
                Engine.cur = prev
                stack.extend(self.todo)
                continue
            except (HarnessError, NotEncodable):
                Engine.cur = prev
                raise
            except Exception as e:     # an exception of the code under analysis on a feasible path is a result
                exc = e
            finally:
                Engine.cur = prev
            stack.extend(self.todo)
            out.append(Path(list(self.pc), res, exc, list(self.decisions)))
            if len(out) > self.max_paths:
                raise HarnessError(f"more than {self.max_paths} paths")
        return out

    def decide(self, f):
        if self.pos < len(self.decisions):
            d = self.decisions[self.pos]
        else:
            t = self.feasible(self.pc, f)
            fl = self.feasible(self.pc, f_not(f))
            if t and fl:
                d = True
                self.todo.append(self.decisions[:self.pos] + [False])
            elif t:
                d = True
            elif fl:
                d = False
            else:
                raise PathAbort()
            self.decisions.append(d)
        self.pos += 1
        self.pc.append(f if d else f_not(f))
        return d

    def concretise(self, n):
        """turn an integer-valued symbolic node into a Python int by enumerating its feasible values (one path each)."""
        from . import smt
        tried = 0
        while True:
            if self.pos < len(self.decisions):
                tag, v, taken = self.decisions[self.pos]
            else:
                cs = self.z3_context(self.pc)
                p, q = self.tr.rz(n)
                r, model, _, _ = smt.check(cs, self.timeout_ms)
                if r != "sat":
                    if r == "unsat":
                        raise PathAbort()
                    raise HarnessError("cannot concretise (solver unknown)")
                val = smt.model_value(model, p) / smt.model_value(model, q)
                v = int(math.floor(val))
                f = cmp("eq", n, const(v)) if is_int_node(n) else f_and(cmp("le", const(v), n), cmp("lt", n, const(v + 1)))
                other = self.feasible(self.pc, f_not(f))
                taken = True
                if other:
                    self.todo.append(self.decisions[:self.pos] + [("c", v, False)])
                self.decisions.append(("c", v, True))
            self.pos += 1
            f = cmp("eq", n, const(v)) if is_int_node(n) else f_and(cmp("le", const(v), n), cmp("lt", n, const(v + 1)))
            if taken:
                self.pc.append(f)
                return v
            self.pc.append(f_not(f))
            tried += 1
            if tried > self.max_enum:
                raise HarnessError(f"more than {self.max_enum} values for a concretised integer")


class Path:
    __slots__ = ("pc", "result", "exc", "decisions")

    def __init__(self, pc, result, exc, decisions):
        self.pc, self.result, self.exc, self.decisions = pc, result, exc, decisions


def sym_extreme(values, kind="max"):
    """max / min of symbolic scalars without forking: a fresh variable m with m >= v_i (<=) for all i and m == v_j for some j."""
    e = Engine.cur
    vals = [v if isinstance(v, Sym) else K(v) for v in values]
    if e is None or len(vals) == 1:
        return vals[0]
    m = Sym(dag.var(fresh_name(kind), "R"))
    op = "ge" if kind == "max" else "le"
    ax = f_and(*[cmp(op, m.n, v.n) for v in vals], f_or(*[cmp("eq", m.n, v.n) for v in vals]))
    e.def_axioms.append(ax)
    return m


# ----------------------------------------------------------------------------- constructors
def real(name):
    return Sym(dag.var(name, "R"))


def integer(name):
    return Sym(dag.var(name, "I"))


def K(v):
    return Sym(const(v))


def reals(prefix, *shape):
    a = np.empty(shape, dtype=object)
    for idx in np.ndindex(*shape):
        a[idx] = real(prefix + "_".join(map(str, idx)))
    return a


def sym_array(values):
    """object array of Sym from nested numbers / Syms."""
    a = np.asarray(values, dtype=object) if not isinstance(values, np.ndarray) else values
    out = np.empty(a.shape, dtype=object)
    for idx in np.ndindex(*a.shape):
        v = a[idx]
        out[idx] = v if isinstance(v, (Sym, NaNMarker)) else Sym(const(v))
    return out


PI = Sym(const(dag.PI_Q))


class ExactInt(int):
    """int whose true division is exact (used for sizes like `2 / npoints`)."""
    def __truediv__(s, o):
        if isinstance(o, int) and not isinstance(o, bool):
            return Sym(const(Fraction(int(s), int(o))))
        return int.__truediv__(s, o) if isinstance(o, float) else NotImplemented

    def __rtruediv__(s, o):
        if isinstance(o, int):
            return Sym(const(Fraction(int(o), int(s))))
        if isinstance(o, float):
            return Sym(dag.div(const(o), const(int(s))))
        return NotImplemented

    def _w(name):
        def g(s, *a):
            r = getattr(int, name)(s, *a)
            return ExactInt(r) if isinstance(r, int) and not isinstance(r, bool) else r
        return g
    for _nm in ("__add__", "__radd__", "__sub__", "__rsub__", "__mul__", "__rmul__", "__floordiv__", "__rfloordiv__", "__mod__", "__neg__"):
        locals()[_nm] = _w(_nm)
    del _w, _nm
