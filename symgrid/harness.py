"""Job runner, obligation bookkeeping, replay protocol, evidence and exit status."""
from __future__ import annotations
import hashlib, importlib, inspect, json, multiprocessing as mp, os, sys, time, traceback
from fractions import Fraction
from . import dag, poly, smt, sym
from .sym import Engine, Sym, SymBool, f_and, f_not, f_or, cmp, node_of, HarnessError, TRUE, FALSE
from .dag import NotEncodable

VERIF = os.path.dirname(os.path.dirname(os.path.abspath(__file__)))
REPO_SRC = os.environ.get("SYMGRID_REPO_SRC", "/repo/src")

TIMEOUTS = {"quick": 30000, "thorough": 120000}


def tier():
    return os.environ.get("VERIF_TIER", "quick")


def seed():
    try:
        return int(os.environ.get("VERIF_SEED", "0"))
    except ValueError:
        return 0


# ----------------------------------------------------------------------------- obligations inside a job
class Job:
    """one unit of symbolic work (runs in its own forked process)."""

    def __init__(self, name, fn, *args, **kw):
        self.name, self.fn, self.args, self.kw = name, fn, args, kw


class Ctx:
    def __init__(self, job_name, engine=None, timeout_ms=None):
        self.job = job_name
        self.engine = engine or Engine()
        self.timeout_ms = timeout_ms or TIMEOUTS[tier()]
        self.records = []
        self.functions = set()
        self.paths = 0
        self.twins_sat = 0
        self.twins_unknown = 0
        self.dead_paths = 0
        self.notes = []
        self.bounds = {}
        self.shadows = []          # (name, replay, sampler, key): concrete fall-back when the job cannot be executed symbolically

    def shadow(self, name, replay, sampler, key=None):
        """register a concrete shadow: if symbolic execution of this job aborts (not encodable), the replay oracle is run on
        sampler(rng) inputs; a reproduced violation is reported (marked as found by the concrete shadow, not by the solver)."""
        self.shadows.append((name, replay, sampler, key))

    # -- bookkeeping
    def encoded(self, *objs):
        for o in objs:
            self.functions.add(qualname(o))

    def note(self, s):
        self.notes.append(s)

    def _rec(self, name, verdict, dt, kind, **kw):
        r = dict(job=self.job, name=name, verdict=verdict, time=round(dt, 3), kind=kind)
        r.update(kw)
        self.records.append(r)
        return r

    def _constraints(self, pc, extra_assume=()):
        e = self.engine
        return e.z3_context(list(pc) + [x.f if isinstance(x, SymBool) else x for x in extra_assume])

    # -- reachability twin
    def twin(self, pc=(), label="path"):
        cs = self._constraints(pc)
        r, model, dt, _ = smt.check(cs, min(self.timeout_ms, 20000))
        if r == "sat":
            self.twins_sat += 1
        elif r == "unknown":
            self.twins_unknown += 1
        else:
            self.dead_paths += 1          # the explorer could not refute this path within its short budget; the twin query did: nothing to prove on it
        return r

    # -- equalities  got == expect
    def eq(self, name, got, expect, pc=(), assume=(), replay=None, key=None, slices=None):
        """obligation: got - expect == 0 for all values satisfying assumptions, pc."""
        t0 = time.time()
        try:
            g, x = node_of(got), node_of(expect)
        except NotEncodable as ex:
            return self._rec(name, "error", 0, "eq", detail=f"not encodable: {ex}", key=key)
        d = dag.sub(g, x)
        if d is dag.ZERO:
            return self._rec(name, "unsat", time.time() - t0, "eq", how="syntactic", key=key)
        try:
            num = poly.numerator(d)
            if num.is_zero():
                return self._rec(name, "unsat", time.time() - t0, "eq", how="normalisation", key=key)
            if poly.is_zero_poly(num):
                return self._rec(name, "unsat", time.time() - t0, "eq", how="normalisation (cyclotomic arithmetic for cos(pi k/M))", key=key)
            resid = None
            if len(num.t) < 3000:
                resid = poly.poly_to_node(num)
        except (poly.TooBig, ZeroDivisionError, RecursionError):
            resid = None
        if self._ground_root_zero(d):
            return self._rec(name, "unsat", time.time() - t0, "eq", how="normalisation (closed square root removed by squaring; sign by interval arithmetic)", key=key)
        wit = self._witness(d, pc, assume)
        if wit is not None:
            # the exact normal form is not zero: a model is found by evaluating the difference at simple points (50 digits); replayed like any model
            return self._finish(name, "sat", wit, time.time() - t0, "eq", replay, key, d, detail="counterexample by exact evaluation of the non-zero normal form")
        tr = self.engine.tr
        cs = self._constraints(pc, assume)
        d2 = self._eliminate_roots(d, cs, tr)
        if d2 is not d:
            # roots of perfect powers replaced by +-base (factorisation certified by the normaliser, sign decided by the solver under the path constraints)
            try:
                num2 = poly.numerator(d2)
                if num2.is_zero() or poly.is_zero_poly(num2):
                    return self._rec(name, "unsat", time.time() - t0, "eq", how="normalisation after solver-certified root elimination", key=key)
                d = d2
                resid = poly.poly_to_node(num2) if len(num2.t) < 3000 else None
            except (poly.TooBig, ZeroDivisionError, RecursionError):
                pass
        goal_nodes = [d] if resid is None else [resid, d]
        verdict, model, dt_total = "unknown", None, 0.0
        for gn in goal_nodes:
            p, q = tr.rz(gn)
            r, model, dt, _ = smt.check(cs + tr.side() + [p != 0], self.timeout_ms)
            dt_total += dt
            if r != "unknown":
                verdict = r
                break
        if verdict == "unknown" and slices:
            verdict, model, dt2 = self._slices(cs, tr, goal_nodes[-1], slices)
            dt_total += dt2
            if verdict == "unsat-sliced":
                # weaker, stated claim: the general query stayed unknown; the identity is decided for every value of the remaining variables
                # at each listed parameter combination only
                self.note(f"{name}: general query unknown; decided with parameters pinned to {slices} (all other variables symbolic)")
                return self._rec(name, "unsat", time.time() - t0, "eq", how="solver/normalisation at pinned parameter slices (general query unknown)", key=key)
        return self._finish(name, verdict, model, time.time() - t0, "eq", replay, key, d)

    def _witness(self, d, pc, assume):
        """cheap model search for a difference whose normal form is known not to vanish identically: one-hot / all-ones / small rational points that
        satisfy every assumption and path constraint, evaluated with 50 digits.  Only for terms over variables and closed constants (no uf, no definitional axioms)."""
        import mpmath, itertools
        e = self.engine
        try:
            if e.def_axioms or any(m.op == "uf" for m in dag.walk([d])):
                return None
            vs = dag.free_vars([d])
            if not vs or len(vs) > 40:
                return None
            fs = list(e.assumptions) + list(pc) + [x.f if isinstance(x, SymBool) else x for x in assume]
            names = set(v.args[0] for v in vs)
            for f in fs:
                for leaf in self._formula_nodes(f):
                    for v in dag.free_vars([leaf]):
                        names.add(v.args[0])
            if len(names) > 40:
                return None
            names = sorted(names)
            cands = [{n: 0 for n in names}, {n: 1 for n in names}]
            for n in names:
                for val in (1, -1, Fraction(1, 2), 2):
                    c = {m: 0 for m in names}
                    c[n] = val
                    cands.append(c)
            for k in range(4):
                cands.append({n: Fraction((7 * i + 3 * k) % 11 - 5, 1 + (i + k) % 3) for i, n in enumerate(names)})
            for c in cands:
                env = {n: mpmath.mpf(v.numerator) / v.denominator if isinstance(v, Fraction) else mpmath.mpf(v) for n, v in c.items()}
                try:
                    if not all(sym.eval_formula(f, env) for f in fs):
                        continue
                    with mpmath.workdps(90):
                        val = dag.evalf(d, env, mpmath.mp)
                        if not (abs(val) > mpmath.mpf(10) ** -30) or not mpmath.isfinite(val):
                            continue
                except Exception:
                    continue
                return {n: (Fraction(v) if not isinstance(v, Fraction) else v) for n, v in c.items()}
        except Exception:
            return None
        return None

    @staticmethod
    def _formula_nodes(f):
        if f[0] == "cmp":
            return [f[2], f[3]]
        if f[0] in ("and", "or", "not"):
            out = []
            for g in f[1:]:
                out += Ctx._formula_nodes(g)
            return out
        return []

    @staticmethod
    def _ground_root_zero(d):
        """closed term  alpha*rho + beta  with one square-root atom rho = sqrt(r) occurring linearly:  it is zero iff  -beta/alpha >= 0  (decided by
        certified interval arithmetic) and  beta**2 == alpha**2 * r  (exact normalisation incl. cyclotomic arithmetic).  True only when both are shown."""
        try:
            if dag.has_free(d):
                return False
            roots = [n for n in dag.walk([d]) if n.op == "root"]
            if len(roots) != 1 or roots[0].args[1] != 2:
                return False
            rho = roots[0]
            if any(m.op == "root" for m in dag.walk([rho.args[0]])):
                return False
            d0 = dag.subst(d, {rho: dag.ZERO})
            d1 = dag.subst(d, {rho: dag.ONE})
            d2 = dag.subst(d, {rho: dag.const(Fraction(2))})
            alpha = dag.sub(d1, d0)
            if not poly.is_zero(dag.sub(dag.sub(d2, d0), dag.scale(Fraction(2), alpha))):
                return False
            sa = sym.ground_sign(alpha)
            if sa in (None, 0):
                return False
            sb = sym.ground_sign(d0)
            if sb is None or (sb != 0 and sb == sa):
                return False        # -beta/alpha < 0: cannot be a square root
            return poly.is_zero(dag.sub(dag.mul(d0, d0), dag.mul(dag.mul(alpha, alpha), rho.args[0])))
        except Exception:
            return False

    def _eliminate_roots(self, d, cs, tr):
        """m-th roots whose radicand is A * B**m: replace by root_m(A) * |B| when the solver decides the sign of B under the constraints."""
        for _round in range(3):
            mapping = {}
            for n in dag.walk([d]):
                if n.op != "root":
                    continue
                a, m = n.args
                A, B = dag.ONE, None
                if a.op in ("mul", "add"):
                    B = smt.Translator._perfect_power(a, m)
                if B is None and a.op == "mul" and any(abs(e) >= m for _, e in a.args[0]):
                    B = dag.ONE
                    for b, e in a.args[0]:
                        k = e // m if e >= 0 else -((-e) // m)
                        if k:
                            B = dag.mul(B, dag.powi(b, k))
                        if e - k * m:
                            A = dag.mul(A, dag.powi(b, e - k * m))
                if B is None or B is dag.ONE:
                    continue
                try:
                    pb, qb = tr.rz(B)
                    sb = pb * qb
                    r1, _, _, _ = smt.check(cs + tr.side() + [sb < 0], 10000)
                    sign = 1 if r1 == "unsat" else None
                    if sign is None and m % 2 == 0:
                        r2, _, _, _ = smt.check(cs + tr.side() + [sb > 0], 10000)
                        sign = -1 if r2 == "unsat" else None
                except Exception:
                    sign = None
                if sign is None:
                    continue
                rep = B if sign > 0 else dag.neg(B)
                if A is not dag.ONE:
                    rep = dag.mul(dag.root(A, m), rep)
                mapping[n] = rep
            if not mapping:
                break
            d = dag.subst(d, mapping)
        return d

    # -- predicates
    def holds(self, name, formula, pc=(), assume=(), replay=None, key=None):
        t0 = time.time()
        if isinstance(formula, SymBool):
            f = formula.f
        elif isinstance(formula, tuple):
            f = formula
        else:
            f = TRUE if bool(formula) else FALSE
        if f == FALSE:
            return self._finish(name, "sat", self.model_for(pc, assume) or {}, 0.0, "pred", replay, key, None, detail="predicate folded to False")
        if f == TRUE:
            return self._rec(name, "unsat", 0, "pred", how="folded", key=key)
        tr = self.engine.tr
        neg = tr.formula(f_not(f))
        cs = self._constraints(pc, assume)
        r, model, dt, _ = smt.check(cs + tr.side() + [neg], self.timeout_ms)
        return self._finish(name, r, model, time.time() - t0, "pred", replay, key, None)

    def fail(self, name, detail, replay=None, key=None, model=None, how=None):
        """a violation established without a solver query on this obligation (e.g. real exception on a feasible path)."""
        return self._finish(name, "sat", model, 0.0, "path", replay, key, None, detail=detail)

    def ok(self, name, how="path", detail=None, key=None, replay=None, model=None):
        return self._rec(name, "unsat", 0.0, "path", how=how, detail=detail)

    def model_for(self, pc=(), assume=()):
        cs = self._constraints(pc, assume)
        r, model, dt, _ = smt.check(cs, self.timeout_ms)
        return self.read_model(model) if r == "sat" else None

    def read_model(self, model):
        if model is None:
            return {}
        out = {}
        import z3
        for d in model.decls():
            nm = d.name()
            if "!" in nm and not nm.startswith(("floor_", "ceil_", "rint_")):
                continue
            try:
                v = smt.model_value(model, d())
            except Exception:
                continue
            out[nm] = v
        return out

    def _slices(self, cs, tr, gn, slices):
        """same query with parameters pinned to small rationals; only a `sat` slice changes the verdict."""
        import itertools, z3
        names = list(slices)
        t0 = time.time()
        all_unsat = True
        for combo in itertools.product(*[slices[n] for n in names]):
            pins = [z3.Real(n) == smt._rv(Fraction(v)) for n, v in zip(names, combo)]
            r = None
            try:
                gs = dag.subst(gn, {dag.var(n): dag.const(Fraction(v)) for n, v in zip(names, combo)})
                if poly.numerator(gs).is_zero():
                    r = "unsat"
            except (poly.TooBig, ZeroDivisionError, RecursionError, NotImplementedError):
                gs = gn
            if r is None:
                p, q = tr.rz(gs)
                r, model, dt, _ = smt.check(cs + tr.side() + pins + [p != 0], 20000)
            if r == "sat":
                return "sat", model, time.time() - t0
            if r != "unsat":
                all_unsat = False
            if time.time() - t0 > self.timeout_ms / 1000:
                all_unsat = False
                break
        return ("unsat-sliced" if all_unsat else "unknown"), None, time.time() - t0

    def _finish(self, name, verdict, model, dt, kind, replay, key, d, detail=None):
        rec = self._rec(name, verdict, dt, kind, key=key)
        if detail:
            rec["detail"] = detail
        if verdict == "sat":
            m = self.read_model(model) if not isinstance(model, dict) else model
            rec["model"] = {k: str(v) for k, v in sorted(m.items())[:40]}
            if replay is None:
                rec["replayed"] = None
                rec["detail"] = (rec.get("detail") or "") + " [no replay function: counterexample not confirmed]"
            else:
                try:
                    ok, info = replay(m)
                except Exception as ex:     # replay harness itself failed
                    ok, info = None, {"replay_error": f"{type(ex).__name__}: {ex}", "tb": traceback.format_exc()[-800:]}
                rec["replayed"] = None if ok is None else bool(ok)
                rec["replay_info"] = _jsonable(info)
        return rec


def _jsonable(x):
    if isinstance(x, dict):
        return {str(k): _jsonable(v) for k, v in x.items()}
    if isinstance(x, (list, tuple)):
        return [_jsonable(v) for v in x]
    if isinstance(x, (int, str, bool)) or x is None:
        return x
    if isinstance(x, float):
        return x if x == x and abs(x) != float("inf") else repr(x)
    return repr(x)


def qualname(o):
    try:
        mod = inspect.getmodule(o)
        src = inspect.getsource(o)
        h = hashlib.sha256(src.encode()).hexdigest()[:12]
        q = getattr(o, "__qualname__", getattr(o, "__name__", repr(o)))
        return f"{mod.__name__}.{q}@{h}"
    except Exception:
        return repr(o)


def mfloat(m, name, default=0.0):
    v = m.get(name, default)
    return float(v)


# ----------------------------------------------------------------------------- running jobs
def _run_job(job):
    t0 = time.time()
    sys.setrecursionlimit(20000)
    if REPO_SRC not in sys.path:
        sys.path.insert(0, REPO_SRC)
    ctx = Ctx(job.name)
    err = None
    try:
        job.fn(ctx, *job.args, **job.kw)
    except (HarnessError, NotEncodable) as ex:
        err = f"{type(ex).__name__}: {ex}"
        import random
        rng = random.Random(seed() * 7919 + 17)
        for name, replay, sampler, key in ctx.shadows:
            for _ in range(24):
                m = sampler(rng)
                try:
                    bad, info = replay(m)
                except Exception:
                    continue
                if bad:
                    rec = ctx._rec(name + "  [concrete shadow: symbolic execution aborted with " + err[:80] + "]", "sat", 0.0, "shadow", key=key)
                    rec.update(model={k: str(v) for k, v in m.items()}, replayed=True, replay_info=_jsonable(info))
                    err = None
                    break
            if err is None:
                break
    except sym.PathAbort:
        err = "PathAbort escaped"
    except Exception as ex:
        err = f"harness exception {type(ex).__name__}: {ex}\n{traceback.format_exc()[-1500:]}"
    if err is None and ctx.dead_paths and ctx.twins_sat == 0 and ctx.twins_unknown == 0:
        ctx._rec("twin:job", "vacuous", 0, "twin", detail="every explored path of this job is infeasible (contradictory assumptions)")
    if ctx.dead_paths:
        ctx.notes.append(f"{ctx.dead_paths} explored path(s) proved infeasible by the reachability twin and ignored")
    from . import npproxy
    return dict(job=job.name, records=ctx.records, functions=sorted(ctx.functions), paths=ctx.paths, twins_sat=ctx.twins_sat,
                twins_unknown=ctx.twins_unknown, notes=ctx.notes, error=err, wall=round(time.time() - t0, 2),
                solver=dict(smt.STATS), feas_queries=ctx.engine.feas_queries, feas_unknown=ctx.engine.unknown_feas,
                overrides=dict(npproxy.HITS), rewrites=sorted(dag.REWRITES), snapped={k: str(v) for k, v in list(dag.SNAPPED.items())[:30]},
                bounds=ctx.bounds)


def _worker(job, q):
    try:
        q.put(_run_job(job))
    except BaseException as ex:
        q.put(dict(job=job.name, records=[], functions=[], paths=0, twins_sat=0, twins_unknown=0, notes=[],
                   error=f"worker died: {type(ex).__name__}: {ex}", wall=0, solver={}, feas_queries=0, feas_unknown=0,
                   overrides={}, rewrites=[], snapped={}, bounds={}))


def run_jobs(jobs, nproc=None, job_timeout=None):
    """each job in its own forked process (fresh DAG tables, fresh module globals), up to nproc at a time."""
    nproc = nproc or int(os.environ.get("SYMGRID_PROCS", "14"))
    job_timeout = job_timeout or (900 if tier() == "quick" else 2400)
    ctxm = mp.get_context("fork")
    pending = list(jobs)
    running = []
    results = []
    while pending or running:
        while pending and len(running) < nproc:
            j = pending.pop(0)
            q = ctxm.Queue()
            p = ctxm.Process(target=_worker, args=(j, q))
            p.start()
            running.append((j, p, q, time.time()))
        still = []
        for j, p, q, t0 in running:
            got = None
            try:
                got = q.get(timeout=0.05)
            except Exception:
                pass
            if got is not None:
                p.join(5)
                results.append(got)
                if os.environ.get("SYMGRID_VERBOSE"):
                    print(f"  job {got['job']}: {got['wall']}s, {len(got['records'])} obligations{', ERROR ' + str(got['error'])[:80] if got['error'] else ''}", file=sys.stderr, flush=True)
            elif not p.is_alive():
                try:
                    got = q.get(timeout=1)
                    results.append(got)
                except Exception:
                    results.append(dict(job=j.name, records=[], functions=[], paths=0, twins_sat=0, twins_unknown=0, notes=[],
                                        error=f"worker exited with code {p.exitcode} and no result", wall=round(time.time() - t0, 1), solver={},
                                        feas_queries=0, feas_unknown=0, overrides={}, rewrites=[], snapped={}, bounds={}))
            elif time.time() - t0 > job_timeout:
                p.kill()
                results.append(dict(job=j.name, records=[], functions=[], paths=0, twins_sat=0, twins_unknown=0, notes=[],
                                    error=f"job timeout after {job_timeout}s", wall=job_timeout, solver={}, feas_queries=0,
                                    feas_unknown=0, overrides={}, rewrites=[], snapped={}, bounds={}))
            else:
                still.append((j, p, q, t0))
        running = still
    order = {j.name: i for i, j in enumerate(jobs)}
    results.sort(key=lambda r: order.get(r["job"], 0))
    return results


# ----------------------------------------------------------------------------- known findings
def load_known(prop):
    path = os.path.join(VERIF, "known_findings.json")
    if not os.path.exists(path):
        return []
    with open(path) as fh:
        data = json.load(fh)
    return [e for e in data.get("findings", []) if e.get("property") == prop and e.get("status") == "known"]


def match_known(known, rec):
    key = rec.get("key") or ""
    for e in known:
        if e["key"] == key:
            return e
    return None


# ----------------------------------------------------------------------------- finishing a check
def finish(prop, results, t_start, design_ref, bounds, outside, assumptions, extra_cov=None):
    """write evidence, print verdict lines, return exit status."""
    known = load_known(prop)
    recs = [r for res in results for r in res["records"]]
    errors = [(res["job"], res["error"]) for res in results if res["error"]]
    viol, known_hits, inconclusive, unrep = [], {}, [], []
    for r in recs:
        v = r["verdict"]
        if v == "unsat":
            continue
        if v == "sat":
            if r.get("replayed") is True:
                e = match_known(known, r)
                if e is not None:
                    known_hits.setdefault(e["key"], (e, []))[1].append(r)
                else:
                    viol.append(r)
            else:
                unrep.append(r)
        elif v == "vacuous":
            inconclusive.append(r)
        else:
            inconclusive.append(r)
    EVID = os.environ.get("SYMGRID_EVIDENCE_DIR", os.path.join(VERIF, "evidence"))       # overridden only by the seeded-change matrix (tools/seed_matrix.py)
    SCR = os.environ.get("SYMGRID_SCRATCH_DIR", os.path.join(VERIF, "scratch"))
    os.makedirs(EVID, exist_ok=True)
    os.makedirs(os.path.join(SCR, "replay"), exist_ok=True)
    for _f in os.listdir(os.path.join(SCR, "replay")):
        if _f.startswith(prop + "_"):
            os.remove(os.path.join(SCR, "replay", _f))
    for e, rs in known_hits.values():
        print(f"KNOWN-FINDING: property={prop} {e['key']}: {e['what']} ({len(rs)} obligation(s))")
    replay_paths = []
    for i, r in enumerate(viol):
        path = os.path.join(SCR, "replay", f"{prop}_{i}.json")
        with open(path, "w") as fh:
            json.dump(r, fh, indent=1, default=str)
        replay_paths.append(path)
        print(f"VIOLATION property={prop} replay={path}")
        print(f"  obligation={r['job']}::{r['name']} key={r.get('key')} model={r.get('model')} info={json.dumps(r.get('replay_info'), default=str)[:600]}")
    for r in unrep:
        print(f"INCONCLUSIVE property={prop} query={r['job']}::{r['name']} solver said sat but the counterexample did not replay on the real code "
              f"(replayed={r.get('replayed')}) model={r.get('model')} info={json.dumps(r.get('replay_info'), default=str)[:400]}")
    for r in inconclusive:
        print(f"INCONCLUSIVE property={prop} query={r['job']}::{r['name']} verdict={r['verdict']} {r.get('detail', '')}")
    for j, e in errors:
        print(f"INCONCLUSIVE property={prop} job={j} {e}")
    n_obl = sum(1 for r in recs if r["kind"] != "twin")
    n_known = sum(len(rs) for _, rs in known_hits.values())
    discharged = sum(1 for r in recs if r["verdict"] == "unsat")
    by_how = {}
    for r in recs:
        if r["verdict"] == "unsat":
            by_how[r.get("how", "solver")] = by_how.get(r.get("how", "solver"), 0) + 1
    solver_time = sum(res["solver"].get("time", 0) for res in results)
    queries = sum(res["solver"].get("queries", 0) for res in results)
    functions = sorted({f for res in results for f in res["functions"]})
    overrides = {}
    rewrites, snapped, notes = set(), {}, []
    for res in results:
        for k, v in res["overrides"].items():
            overrides[k] = overrides.get(k, 0) + v
        rewrites.update(res["rewrites"])
        snapped.update(res["snapped"])
        notes += [f"{res['job']}: {n}" for n in res["notes"]]
    samples = []
    for r in recs[:: max(1, len(recs) // 8)][:8]:
        samples.append({k: r[k] for k in ("job", "name", "verdict", "time", "kind") if k in r} | ({"how": r["how"]} if "how" in r else {}))
    import z3
    cov = dict(
        obligations=n_obl - n_known,
        discharged=discharged,
        discharged_by=by_how,
        known_finding_obligations=n_known,
        checker_cmd=f"z3 {z3.get_version_string()} python API, per-query timeout {TIMEOUTS[tier()]} ms; encoder normalisation (symgrid.poly) before each equality query; "
                    f"{queries} solver queries incl. path-feasibility",
        trusted_base=["z3 SMT solver (QF_NRA/NIA)", "NumPy object-array dispatch to element methods", "symgrid DAG constructors (ring/field axioms) and differentiator",
                      "np proxy overrides: " + ", ".join(f"{k}x{v}" for k, v in sorted(overrides.items())),
                      "function-level rewrites: " + "; ".join(sorted(rewrites)),
                      "floats read as exact rationals (snapped within 4 ulp): " + ", ".join(f"{k}->{v}" for k, v in list(snapped.items())[:12])],
        functions_encoded=functions,
        bounds=bounds,
        paths=sum(res["paths"] for res in results),
        twins_sat=sum(res["twins_sat"] for res in results),
        twins_unknown=sum(res["twins_unknown"] for res in results),
        solver_queries=queries,
        solver_time_s=round(solver_time, 2),
        feasibility_queries=sum(res["feas_queries"] for res in results),
        jobs=[dict(job=res["job"], wall=res["wall"], obligations=len(res["records"]), error=res["error"], bounds=res.get("bounds")) for res in results],
        samples=samples,
        outside_claim=outside,
        inconclusive=len(inconclusive) + len(unrep) + len(errors),
        notes=notes[:40],
    )
    if extra_cov:
        cov.update(extra_cov)
    ev = dict(property_id=prop, tier=tier(), seed=seed(), level="proof", coverage=cov, assumptions=assumptions,
              wall_s=round(time.time() - t_start, 2), violations=len(viol))
    with open(os.path.join(EVID, f"{prop}.json"), "w") as fh:
        json.dump(ev, fh, indent=1, default=str)
    status = 1 if viol else (2 if (inconclusive or unrep or errors) else 0)
    print(f"{prop} tier={tier()} obligations={n_obl} discharged={discharged} {by_how} known={n_known} violations={len(viol)} "
          f"inconclusive={len(inconclusive) + len(unrep) + len(errors)} paths={cov['paths']} queries={queries} solver_time={solver_time:.1f}s wall={time.time() - t_start:.1f}s -> exit {status}")
    return status


# ----------------------------------------------------------------------------- recompiling a function from its current source
def recompile(fn, transformer, extra_globals=None, name_suffix="transformed"):
    """the real function, recompiled from its CURRENT source after an AST transformation (stated in the evidence as a stub);
    globals are those of the defining module (so a proxied `np` is picked up), optionally overridden."""
    import ast, inspect, textwrap
    src = textwrap.dedent(inspect.getsource(fn))
    tree = ast.parse(src)
    tree = ast.fix_missing_locations(transformer.visit(tree))
    tree.body[0].decorator_list = []
    mod = inspect.getmodule(fn)
    ns = dict(mod.__dict__)
    if extra_globals:
        ns.update(extra_globals)
    exec(compile(tree, f"<{fn.__qualname__} {name_suffix}>", "exec"), ns)
    return ns[fn.__name__]
