#!/bin/sh
# Build the analysis environment offline: overlay venv over /venv (numpy/scipy/mpmath of the repo) + z3/crosshair from the wheelhouse.
set -e
cd "$(dirname "$0")"
if [ ! -x .venv/bin/python ] || ! .venv/bin/python -c "import z3, crosshair, numpy, scipy, mpmath" 2>/dev/null; then
  rm -rf .venv
  /venv/bin/python -m venv .venv
  echo "/venv/lib/python3.12/site-packages" > .venv/lib/python3.12/site-packages/base.pth
  PIP_NO_INDEX=1 .venv/bin/pip install -q --no-index --find-links /opt/veriftools/wheels z3-solver crosshair-tool cvc5 >/dev/null
fi
.venv/bin/python -c "import z3, crosshair, numpy, scipy, mpmath; print('symgrid env ok: z3', z3.get_version_string(), 'numpy', numpy.__version__)"
